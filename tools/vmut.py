#!/usr/bin/env python3
"""Contract-strength probe for the Verus units (development aid, not part of any check).

usage: vmut.py <unit> [--repo DIR] [--jobs N]

For every function the unit extracts from the repository, generates first-order
mutants of its body (relational operator flips, +-1 tweaks, && / ||, dropped
statement), re-assembles the unit against a scratch copy with that mutant and
runs Verus.  Prints the survivors: mutants the unit still VERIFIES.  A survivor
is either an equivalent / property-irrelevant change or a hole in the contract.
"""
import os, re, sys, shutil, subprocess, tempfile, json, concurrent.futures as cf
sys.path.insert(0, os.path.dirname(os.path.abspath(__file__)))
import verus_stage as vs
from extract import find_item, mask

OPS = [
    (r'(?<![<>=!\-])<(?![=<])', '<='), (r'<=', '<'), (r'(?<![<>=\-])>(?![=>])', '>='), (r'>=', '>'),
    (r'==', '!='), (r'!=', '=='), (r'&&', '||'), (r'\|\|', '&&'),
    (r'\+ 1\b', '+ 2'), (r'- 1\b', '- 0'), (r'\+ 1\b', ''), (r'- 1\b', ''),
    (r'\b0\b', '1'), (r'\btrue\b', 'false'), (r'\bfalse\b', 'true'),
]

def mutants_of(body):
    msk = mask(body)
    out = []
    lines = body.split('\n')
    off = 0
    for ln, line in enumerate(lines):
        m_line = msk[off:off + len(line)]
        code = m_line.strip()
        if code and not code.startswith('//'):
            for pat, rep in OPS:
                for m in re.finditer(pat, m_line):
                    new = line[:m.start()] + rep + line[m.end():]
                    out.append((ln, f'{pat} -> {rep!r}', '\n'.join(lines[:ln] + [new] + lines[ln + 1:])))
            # drop a simple statement
            if re.fullmatch(r'\s*[\w\.\[\]\(\)&\*\s,:+\-]+(\([^;]*\))?;\s*', line) and not re.match(r'\s*(let|return|break|continue)\b', line):
                out.append((ln, 'drop statement', '\n'.join(lines[:ln] + lines[ln + 1:])))
        off += len(line) + 1
    return out

def run_one(args):
    unit, repo, rel, start, end, new_body, tag, ln, idx = args
    d = tempfile.mkdtemp(prefix='vmut.', dir='/var/tmp/vmut')
    try:
        shutil.copytree(os.path.join(repo, 'src'), os.path.join(d, 'src'))
        p = os.path.join(d, rel)
        s = open(p).read()
        open(p, 'w').write(s[:start] + new_body + s[end:])
        try:
            a = vs.assemble(os.path.join(vs.CONTRACTS, unit + '.vc'), d)
        except vs.LostAnchor as e:
            return (tag, ln, 'lost-anchor')
        out = os.path.join(d, 'u.rs')
        open(out, 'w').write(a.text)
        r = vs.run_verus(out, timeout=120)
        return (tag, ln, r['status'])
    finally:
        shutil.rmtree(d, ignore_errors=True)

def main():
    unit = sys.argv[1]
    repo = '/repo'
    jobs = 4
    if '--repo' in sys.argv: repo = sys.argv[sys.argv.index('--repo') + 1]
    if '--jobs' in sys.argv: jobs = int(sys.argv[sys.argv.index('--jobs') + 1])
    a = vs.assemble(os.path.join(vs.CONTRACTS, unit + '.vc'), repo)
    tasks = []
    for f in a.functions:
        src = open(os.path.join(repo, f['file'])).read()
        it = find_item(src, f['path'])
        body = it.body
        start, end = it.body_open + 1, it.end - 1
        for k, (ln, tag, nb) in enumerate(mutants_of(body)):
            line_txt = body.split('\n')[ln].strip()
            tasks.append((unit, repo, f['file'], start, end, nb, f"{f['name']}: {tag} @ `{line_txt[:70]}`", ln, k))
    print(f'{unit}: {len(tasks)} mutants over {len(a.functions)} functions')
    res = {}
    with cf.ThreadPoolExecutor(max_workers=jobs) as ex:
        for tag, ln, st in ex.map(run_one, tasks):
            res.setdefault(st, []).append(tag)
    for st, l in sorted(res.items()):
        print(f'  {st}: {len(l)}')
    for t in res.get('verified', []):
        print('  SURVIVOR', t)

if __name__ == '__main__':
    main()
