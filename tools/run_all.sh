#!/bin/bash
# run the quick tier of every claimed check; summary at the end
cd /verif
tier=${1:-quick}
ids=$(python3 -c "import json;print(' '.join(c['property_id'] for c in json.load(open('MANIFEST.json'))['checks']))")
for id in ${2:-$ids}; do
  s=$(date +%s)
  ./check $id --tier $tier $EXTRA > /var/tmp/runall_${tier}_$id.log 2>&1
  rc=$?
  echo "$id rc=$rc $(( $(date +%s) - s ))s $(grep -E "tier=" /var/tmp/runall_${tier}_$id.log | tail -1 | cut -c1-150)"
done
