#!/bin/bash
# usage: tools/mutcheck.sh <prop> <patch-file | sed-expr:file> [check args]
# Applies a deliberate break to a scratch copy of /repo (never to /repo), runs the
# check against it, removes the scratch copy.
set -u
prop=$1; mut=$2; shift 2
d=$(mktemp -d /var/tmp/rosu-mut.XXXXXX)
rsync -a --exclude target --exclude .git /repo/ $d/repo/
if [[ -f "$mut" ]]; then
  (cd $d/repo && patch -p1 -s < "$mut") || { echo "patch failed"; rm -rf $d; exit 3; }
else
  expr="${mut%%::*}"; file="${mut##*::}"
  before=$(md5sum $d/repo/$file)
  sed -i -E "$expr" $d/repo/$file
  after=$(md5sum $d/repo/$file)
  [[ "$before" == "$after" ]] && { echo "mutation did not change $file"; rm -rf $d; exit 3; }
fi
(cd $d/repo && diff -u /repo/${file:-x} $d/repo/${file:-x} | head -20)
/verif/check $prop --repo $d/repo --no-evidence "$@"
rc=$?
rm -rf $d
echo "exit=$rc"
exit $rc
