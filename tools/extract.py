#!/usr/bin/env python3
"""Mechanical Rust item extractor used by the Verus stage.

Nothing here interprets Rust beyond lexing: comments, string/char literals and
lifetimes are recognised so that brace / paren matching is exact.  Items are
located by a *path* of item headers, e.g.

    "impl ControlPoints" / "fn timing_point_at"
    "impl ControlPoint<ControlPoints> for SamplePoint" / "fn add"
    "fn calculate_length"
    "trait Pending" / "fn push_front"

A header matches when the whitespace-normalised source header (text between the
item keyword and its opening `{`, generics included, `pub`/`pub(crate)`/`const`
/`unsafe` qualifiers and `where` clauses stripped) starts with the requested
text followed by a non-identifier character.

A lost anchor raises LostAnchor; callers turn that into "undecided" (exit 2),
never into a violation.
"""
import re


class LostAnchor(Exception):
    pass


def mask(src: str) -> str:
    """Return src with the *contents* of comments, string and char literals
    replaced by spaces (same length), so that structural scanning is safe."""
    out = list(src)
    i, n = 0, len(src)

    def blank(a, b):
        for k in range(a, b):
            if out[k] != '\n':
                out[k] = ' '

    while i < n:
        c = src[i]
        if c == '/' and i + 1 < n and src[i + 1] == '/':
            j = src.find('\n', i)
            j = n if j < 0 else j
            blank(i, j)
            i = j
        elif c == '/' and i + 1 < n and src[i + 1] == '*':
            depth, j = 1, i + 2
            while j < n and depth:
                if src.startswith('/*', j):
                    depth += 1
                    j += 2
                elif src.startswith('*/', j):
                    depth -= 1
                    j += 2
                else:
                    j += 1
            blank(i, j)
            i = j
        elif c == '"' or (c in 'br' and re.match(r'(b?r#*"|b")', src[i:i + 8]) and (i == 0 or not (src[i - 1].isalnum() or src[i - 1] == '_'))):
            m = re.match(r'b?r(#*)"', src[i:])
            if m and c != '"':
                hashes = m.group(1)
                start = i + m.end()
                j = src.find('"' + hashes, start)
                j = n if j < 0 else j
                blank(start, j)
                i = j + 1 + len(hashes)
            else:
                start = i + (2 if c == 'b' else 1)
                j = start
                while j < n and src[j] != '"':
                    j += 2 if src[j] == '\\' else 1
                blank(start, j)
                i = j + 1
        elif c == "'":
            # char literal or lifetime
            m = re.match(r"'(\\.[^']*|[^\\'])'", src[i:])
            if m:
                blank(i + 1, i + m.end() - 1)
                i += m.end()
            else:
                i += 1
        else:
            i += 1
    return ''.join(out)


def match_close(msk: str, i: int) -> int:
    """i is the index of an opening bracket in the masked text; return the index
    of its matching closer."""
    pairs = {'{': '}', '(': ')', '[': ']'}
    o = msk[i]
    c = pairs[o]
    depth = 0
    for j in range(i, len(msk)):
        ch = msk[j]
        if ch == o:
            depth += 1
        elif ch == c:
            depth -= 1
            if depth == 0:
                return j
    raise LostAnchor(f'unbalanced {o} at {i}')


_ITEM_RE = re.compile(r'\b(fn|impl|trait|struct|enum|mod|const|static|type)\b')
_QUAL = re.compile(r'^(pub(\s*\([^)]*\))?|const|unsafe|async|default|extern(\s*"[^"]*")?)\s+')


def norm(s: str) -> str:
    s = re.sub(r'\s+', ' ', s).strip()
    s = re.sub(r'\s*([<>(),:&\[\]|=;{}])\s*', r'\1', s)
    # a trailing comma before a closing bracket (rustfmt adds one when it wraps a list) is not a difference
    s = re.sub(r',([)\]>}])', r'\1', s)
    return s


class Item:
    def __init__(self, src, kw, start, hdr_start, body_open, end):
        self.src = src
        self.kw = kw
        self.start = start          # start of item incl. attributes/doc/qualifiers
        self.hdr_start = hdr_start  # index of the keyword
        self.body_open = body_open  # index of '{' (or -1 for `;` items)
        self.end = end              # index one past closing '}' or ';'

    @property
    def header(self):
        e = self.body_open if self.body_open >= 0 else self.end - 1
        return self.src[self.hdr_start:e]

    @property
    def signature(self):
        """text from qualifiers through just before the body brace"""
        e = self.body_open if self.body_open >= 0 else self.end - 1
        return self.src[self.qual_start():e].strip()

    def qual_start(self):
        # walk back from the keyword over qualifiers on the same logical header
        i = self.hdr_start
        txt = self.src[self.start:i]
        # strip attributes and doc comments from the front
        pos = 0
        m = mask(txt)
        while True:
            mm = re.match(r'\s*(#!?\[)', m[pos:])
            if mm:
                o = pos + mm.end() - 1
                pos = match_close(m, o) + 1
                continue
            mm = re.match(r'\s+', m[pos:])
            if mm and mm.end() > 0:
                pos += mm.end()
                continue
            break
        return self.start + pos

    @property
    def body(self):
        if self.body_open < 0:
            raise LostAnchor('item has no body')
        return self.src[self.body_open + 1:self.end - 1]

    @property
    def text(self):
        return self.src[self.start:self.end]


def items_in(src: str, msk: str, lo: int, hi: int):
    """Yield the items that are direct children of the region [lo, hi)."""
    i = lo
    while i < hi:
        m = _ITEM_RE.search(msk, i, hi)
        if not m:
            return
        kw = m.group(1)
        k = m.start()
        # `const fn`, `unsafe impl` etc: the qualifier regex eats them; but
        # `const` as an item keyword precedes `fn` — prefer the later keyword
        if kw == 'const':
            m2 = re.match(r'const\s+(unsafe\s+)?(fn)\b', msk[k:hi])
            if m2:
                i = k + 5
                continue
        if kw == 'type' and re.match(r'type\s*=', msk[k:hi]):
            i = k + 4
            continue
        # find item start: go back over qualifiers / attributes on preceding lines
        start = k
        line_start = msk.rfind('\n', 0, k) + 1
        start = line_start
        # include preceding attribute / doc lines
        while True:
            prev_end = start - 1
            if prev_end <= lo:
                break
            prev_start = src.rfind('\n', 0, prev_end) + 1
            line = src[prev_start:prev_end].strip()
            if line.startswith('#[') or line.startswith('///') or line.startswith('//!') or line.endswith(']') and line.startswith('#'):
                start = prev_start
            else:
                break
        start = max(start, lo)
        # find end: first `{` or `;` at bracket depth 0 after keyword
        j = m.end()
        depth = 0
        body_open = -1
        end = None
        while j < hi:
            ch = msk[j]
            if ch in '([':
                j = match_close(msk, j) + 1
                continue
            if ch == '<':
                depth += 1
            elif ch == '>' and msk[j - 1] != '-' and msk[j - 1] != '=':
                depth = max(0, depth - 1)
            elif ch == '{':
                body_open = j
                end = match_close(msk, j) + 1
                break
            elif ch == ';':
                end = j + 1
                break
            j += 1
        if end is None:
            return
        yield Item(src, kw, start, k, body_open, end)
        i = end


def header_matches(item: Item, want: str) -> bool:
    h = item.header
    h = re.sub(r'\bwhere\b.*$', '', h, flags=re.S)
    hn = norm(h)
    wn = norm(want)
    if not hn.startswith(wn):
        return False
    rest = hn[len(wn):]
    return rest == '' or not (rest[0].isalnum() or rest[0] == '_')


def find_item(src: str, path):
    """path: list of header strings. Returns Item.  When several items match a
    non-final header (e.g. two `impl X` blocks) the one in which the rest of the
    path resolves is taken; the overall match must be unique."""
    msk = mask(src)

    def rec(lo, hi, path):
        want = path[0]
        found = [it for it in items_in(src, msk, lo, hi) if header_matches(it, want)]
        if not found and want.startswith('fn '):
            found = [it for it in _scan_all(src, msk, lo, hi) if header_matches(it, want)]
        if len(path) == 1:
            return found
        res = []
        for it in found:
            if it.body_open >= 0:
                res.extend(rec(it.body_open + 1, it.end - 1, path[1:]))
        return res

    found = rec(0, len(src), list(path))
    if len(found) != 1:
        raise LostAnchor(f'item {" / ".join(path)}: {len(found)} matches')
    return found[0]


def _scan_all(src, msk, lo, hi):
    for m in re.finditer(r'\bfn\b', msk[lo:hi]):
        k = lo + m.start()
        for it in items_in(src, msk, msk.rfind('\n', 0, k) + 1, hi):
            if it.hdr_start == k:
                yield it
            break


# ---------------------------------------------------------------------------
# body-level anchors


def find_closures(body: str):
    """Return list of (start, params_end, expr_end) for closure literals
    `|params| expr` in body, in source order.  expr ends at the first `,` or
    closing bracket at depth 0, or at the matching brace if expr is a block."""
    msk = mask(body)
    res = []
    i = 0
    n = len(body)
    while i < n:
        if msk[i] == '|' and (i + 1 < n and msk[i + 1] != '|' or True):
            # closure starts if previous non-space char is one of ( , = { ; or start, or keyword move
            j = i - 1
            while j >= 0 and msk[j] in ' \n\t':
                j -= 1
            prev = msk[j] if j >= 0 else '('
            prev_word = re.search(r'(\w+)\s*$', msk[:i])
            is_start = prev in '(,={;' or (prev_word and prev_word.group(1) in ('move', 'return'))
            if is_start and not (msk[i + 1:i + 2] == '|' and False):
                # params
                if msk[i + 1] == '|':
                    pe = i + 1
                else:
                    pe = i + 1
                    depth = 0
                    while pe < n:
                        ch = msk[pe]
                        if ch in '(<[':
                            depth += 1
                        elif ch in ')>]':
                            depth -= 1
                        elif ch == '|' and depth == 0:
                            break
                        pe += 1
                # expr
                k = pe + 1
                while k < n and msk[k] in ' \n\t':
                    k += 1
                if k < n and msk[k] == '{':
                    ee = match_close(msk, k) + 1
                else:
                    depth = 0
                    ee = k
                    while ee < n:
                        ch = msk[ee]
                        if ch in '([{':
                            ee = match_close(msk, ee) + 1
                            continue
                        if ch in ')]},;' and depth == 0:
                            break
                        ee += 1
                res.append((i, pe, ee))
                i = ee
                continue
        i += 1
    return res


def find_loops(body: str):
    """Return list of (kw_start, brace_open) for `while`/`for`/`loop` heads in
    body in source order (nested loops included, pre-order)."""
    msk = mask(body)
    res = []
    for m in re.finditer(r'\b(while|for|loop)\b', msk):
        k = m.start()
        if m.group(1) == 'for':
            # exclude `for<'a>` HRTB and `impl X for Y`
            if not re.match(r'for\s+[\w(&]', msk[k:]) or re.search(r'\bimpl\b[^{;]*$', msk[:k].split('\n')[-1]):
                continue
        j = m.end()
        # head expression: up to the first `{` at depth 0 — but `while { ... } {`
        # (block condition) is used in this crate: handle a leading block
        while j < len(msk) and msk[j] in ' \n\t':
            j += 1
        if m.group(1) == 'while' and msk[j] == '{':
            j = match_close(msk, j) + 1
        while j < len(msk):
            ch = msk[j]
            if ch in '([':
                j = match_close(msk, j) + 1
                continue
            if ch == '{':
                break
            j += 1
        res.append((k, j))
    return res


if __name__ == '__main__':
    import sys
    src = open(sys.argv[1]).read()
    it = find_item(src, sys.argv[2:])
    print(it.signature)
    print('---')
    print(it.body)
