#!/usr/bin/env python3
"""Regenerate /verif/MANIFEST.json from tools/props.py (single source of truth)."""
import json, os, sys
ROOT = os.path.dirname(os.path.dirname(os.path.abspath(__file__)))
sys.path.insert(0, os.path.join(ROOT, 'tools'))
from props import PROPS, NOT_APPLICABLE

checks = []
for pid in sorted(PROPS):
    c = PROPS[pid]
    checks.append({
        'property_id': pid,
        'quick_cmd': f'./check {pid} --tier quick',
        'thorough_cmd': f'./check {pid} --tier thorough',
        'evidence_file': f'/verif/evidence/{pid}.json',
        'replay_cmd_template': f'./check {pid} --replay {{path}}',
        'engine': 'contracts',
        'level_claimed': {'category': c['category'], 'text': c['level_text'], 'design_ref': f'DESIGN.md §5 {pid}'},
        'level_note': c['level_note'],
        'technique': c['technique'],
    })
man = {
    'version': 1,
    'setup_cmd': 'cd /verif && ./setup.sh',
    'hooks': {
        'guard': 'maxohn_rosu_map_verif',
        'enable': 'none needed: Kani harnesses are appended (additively, checked) to a scratch copy of /repo on every run under #[cfg(kani)]; Verus units are extracted from /repo on every run. No guarded source commits exist.',
        'baseline_off_cmd': 'cd /repo && cargo test --workspace --no-fail-fast --offline',
        'source_commits': [],
        'add_only': True,
    },
    'engines': [
        {'name': 'contracts', 'path': '/verif/check', 'serves_properties': sorted(PROPS),
         'kind_free_text': 'contract-based deductive verification of the real code: Verus (unbounded, functions extracted mechanically from /repo each run, contracts in contracts/*.vc) + Kani/CBMC (function contracts / loop-free full-domain harnesses = proved; harnesses with a stated structural bound = bounded stand-in), contracts in contracts/*.kc'},
    ],
    'checks': checks,
    'not_applicable': [{'property_id': k, 'reason': v} for k, v in sorted(NOT_APPLICABLE.items())],
    'notes': 'Exit codes of ./check: 0 held, 1 violation (VIOLATION line), 2 undecided (lost anchor / solver limit / unsupported construct; never reported as a violation). Known findings: /verif/known_findings.json.',
}
json.dump(man, open(os.path.join(ROOT, 'MANIFEST.json'), 'w'), indent=1)
print('wrote MANIFEST.json:', len(checks), 'checks,', len(man['not_applicable']), 'not applicable')
