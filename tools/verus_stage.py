#!/usr/bin/env python3
"""Verus stage: assemble a unit file from a contract template (.vc) plus item
text extracted mechanically from the repository's current working tree, run
`verus`, and classify the outcome.

Template directives (all start with `//@@`; payloads in <<< >>> may span lines):

  //@@ INCLUDE <file.vc>                 textual include (relative to contracts/)
  //@@ ITEM <file> :: <hdr> [:: <hdr>]   copy an item verbatim (R1: attributes and
                                         doc comments stripped), SUBs allowed; ends at
                                         //@@ END
  //@@ FN <file> :: <hdr> [:: <hdr>]     a function whose *body* is taken from the
                                         repository; the template lines up to
                                         //@@ BODY are the Verus signature + contract
  //@@ SIG <<<source signature>>>        must equal the repository signature
                                         (whitespace-normalised) else lost anchor
  //@@ SELF <ident>                      R2: rename `self` in the body
  //@@ CLOSURE <n> <<<header>>>          R3: n-th closure literal gets a typed header
                                         (+ensures); its body is kept from the source
  //@@ LOOP <n> <<<invariants>>>         R5: inserted between loop head and `{`
  //@@ SUB <count> <<<old>>> ==> <<<new>>>   exact replacement; must match count times
  //@@ BEFORE <n> <<<anchor>>> <<<text>>>    insert text before n-th occurrence of anchor
  //@@ AFTER <n> <<<anchor>>> <<<text>>>     insert text after n-th occurrence of anchor
  //@@ PRE <<<text>>>                    insert at the start of the body
  //@@ POST <<<text>>>                   insert at the end of the body (before `}`)
  //@@ R7 <writer-ident>                 rule R7, mechanical: every write!(W, FMT, ..)? / W.write_all(..)? becomes
                                         emit_last / emit_byte of the LAST byte written; dead lets are dropped
  //@@ R12                               rule R12: code under #[cfg(feature = "tracing")] removed (feature off), #[allow(..)] dropped
  //@@ R10 <writer-ident> [expr] [mode=record]   rule R10, mechanical (mode=record: literals are cut at `,` and newline only, every other piece is an emit_lit): every write!/writeln!(W, FMT, ..) / W.write_all(b"..") becomes the
                                         sequence of typed emissions it performs (see r10_edits)
  //@@ CUT <<<start>>> <<<end>>>          drop the source text from `start` up to (not including) `end` -- except its exits
                                         (rule R13: each `return E;` in it is kept as `if cut_region_exit() { return E; }`);
                                         the number of dropped lines is reported in the evidence
  //@@ LOOPBODY n <<<text>>>             insert ghost text at the START of the body of the n-th loop (runs on every iteration)
  //@@ AFTERLOOP n <<<text>>>            insert ghost text right after the n-th loop
  //@@ BEFOREEACH <<<anchor>>> <<<text>>>  insert ghost text before EVERY occurrence of anchor (none is fine)
  //@@ CUTBLOCK <<<anchor>>> <<<text>>>   the contents of the first `{ .. }` block after `anchor` (brace-matched)
                                         are replaced by `text`; dropped lines are reported in the evidence
  //@@ FORWHILE n                        rule R9: the n-th loop, `for x in a..b { B }`, is desugared to
                                         `let mut verif_it = a; let verif_end = b; while verif_it < verif_end { let x = verif_it; verif_it += 1; B }`
                                         (Verus for-loops do not support `continue`); `for x in (a..b).rev()` likewise, counting down
  //@@ R14                               rule R14: every `L op= E;` in the body is written out as `L = L op (E);`
  //@@ BODY                              emit `{ transformed body }`
  //@@ CHECKSIG <file> :: <hdr>.. <<<sig>>>  only checks that a (bodiless) declaration
                                         still has this signature

Every edit is computed against the ORIGINAL body text (offsets), edits must not
overlap, and each directive that does not find its anchor is a LostAnchor
(=> undecided, exit 2), never a violation.
"""
import json
import os
import re
import subprocess
import sys
import time

sys.path.insert(0, os.path.dirname(os.path.abspath(__file__)))
from extract import LostAnchor, find_item, find_closures, find_loops, mask, norm  # noqa: E402

CONTRACTS = os.path.join(os.path.dirname(os.path.dirname(os.path.abspath(__file__))), 'contracts')


def _payloads(s):
    return re.findall(r'<<<(.*?)>>>(?!>)', s, flags=re.S)


def _read_directives(lines, i):
    """A directive may span lines until its <<< >>> are balanced. Returns (text, next_i)."""
    txt = lines[i]
    while txt.count('<<<') > txt.count('>>>'):
        i += 1
        if i >= len(lines):
            raise LostAnchor('unterminated <<< in template')
        txt += '\n' + lines[i]
    return txt, i + 1


def strip_attrs_docs(text):
    out = []
    msk = mask(text)
    i = 0
    lines = text.split('\n')
    res = []
    skip_depth = 0
    for ln in lines:
        s = ln.strip()
        if s.startswith('///') or s.startswith('//!'):
            continue
        if s.startswith('#[') and s.endswith(']'):
            continue
        res.append(ln)
    return '\n'.join(res)


class Assembled:
    def __init__(self):
        self.text = ''
        self.rules = {}         # rule name -> count
        self.functions = []     # dicts: name, file, path, line_lo, line_hi
        self.items = []
        self.trusted = []       # assume_specification / external_body / assume / admit lines


def _split_top(s):
    """split on top-level commas"""
    out, depth, cur = [], 0, ''
    m = mask(s)
    for ch, mc in zip(s, m):
        if mc in '([{':
            depth += 1
        elif mc in ')]}':
            depth -= 1
        if mc == ',' and depth == 0:
            out.append(cur)
            cur = ''
        else:
            cur += ch
    if cur.strip():
        out.append(cur)
    return [x.strip() for x in out]



def _unescape_rust(lit):
    """contents of a Rust "..." literal -> text"""
    out, i = '', 0
    while i < len(lit):
        c = lit[i]
        if c == '\\' and i + 1 < len(lit):
            n = lit[i + 1]
            if n == 'n':
                out += '\n'
            elif n == 't':
                out += '\t'
            elif n == 'r':
                out += '\r'
            elif n in '"\\\'':
                out += n
            elif n == '0':
                out += '\0'
            elif n == '\n':
                i += 2
                while i < len(lit) and lit[i] in ' \t\n':
                    i += 1
                continue
            else:
                raise LostAnchor(f'R10: unsupported escape \\{n}')
            i += 2
        else:
            out += c
            i += 1
    return out


def _fmt_pieces(fmt):
    """format text -> [('lit', text) | ('arg', name|None)]"""
    out, cur, i = [], '', 0
    while i < len(fmt):
        c = fmt[i]
        if c == '{':
            if fmt[i + 1:i + 2] == '{':
                cur += '{'
                i += 2
                continue
            j = fmt.find('}', i)
            if j < 0:
                raise LostAnchor('R10: unbalanced { in format')
            inner = fmt[i + 1:j]
            name = inner.split(':', 1)[0].strip() or None
            if cur:
                out.append(('lit', cur))
                cur = ''
            out.append(('arg', name))
            i = j + 1
        elif c == '}':
            if fmt[i + 1:i + 2] == '}':
                cur += '}'
                i += 2
                continue
            raise LostAnchor('R10: stray } in format')
        else:
            cur += c
            i += 1
    if cur:
        out.append(('lit', cur))
    return out


def _lit_tokens_record(text):
    """record sections: literal text is cut at newlines and commas; `[Name]` alone on a line is a
    header; every other literal piece is kept verbatim"""
    toks = []
    for k, seg in enumerate(text.split('\n')):
        if k > 0:
            toks.append(('nl',))
        if not seg:
            continue
        if re.fullmatch(r'\[\w+\]', seg):
            toks.append(('header', seg))
            continue
        for k2, piece in enumerate(seg.split(',')):
            if k2 > 0:
                toks.append(('comma',))
            if piece:
                toks.append(('lit', piece))
    return toks


def _lit_tokens(text):
    """literal text -> typed emission tokens (purely lexical classification)"""
    toks = []
    segs = text.split('\n')
    for k, seg in enumerate(segs):
        if k > 0:
            toks.append(('nl',))
        if not seg:
            continue
        if re.fullmatch(r' *: *', seg):     # KeyValue::parse splits at the first `:` and trims both sides
            toks.append(('sep',))
        elif seg == ',':
            toks.append(('comma',))
        elif re.fullmatch(r'\[\w+\]', seg):
            toks.append(('header', seg))
        elif seg == 'osu file format v':
            toks.append(('version',))
        elif re.fullmatch(r'\w+ *: *', seg):
            toks.append(('keytext', re.match(r'\w+', seg).group(0)))
            toks.append(('sep',))
        else:
            raise LostAnchor(f'R10: literal text {seg!r} is outside the key/value line grammar this rule knows')
    return toks


def r10_edits(body, msk, writer, log, cuts=(), wexpr=None, record=False):
    """R10, mechanical (key: value sections): every `write!` / `writeln!(W, "FMT", args..)` and
    `W.write_all(b"..")` becomes the sequence of TYPED emissions it performs, in order:
      literal `[Name]` -> emit_header(W, "[Name]")    literal newline -> emit_nl(W)
      literal `:` (spaces around it allowed) -> emit_sep(W)                  literal `,`     -> emit_comma(W)
      literal `Word: ` -> emit_key_text(W, "Word"); emit_sep(W)     literal `osu file format v` -> emit_version_prefix(W)
      placeholder      -> emit_arg(W, <the argument expression>)   (`E as i32` -> as_i32(E))
    The rendered text of an argument is abstracted to the class of its Rust type."""
    from extract import match_close
    edits = []
    wx = wexpr or writer   # how the writer is passed on (`&mut writer` where the code holds it by value)
    lit_tokens = _lit_tokens_record if record else _lit_tokens

    def render(tokens, q_last):
        calls = []
        for t in tokens:
            if t[0] == 'nl':
                calls.append(f'emit_nl({wx})')
            elif t[0] == 'sep':
                calls.append(f'emit_sep({wx})')
            elif t[0] == 'comma':
                calls.append(f'emit_comma({wx})')
            elif t[0] == 'header':
                calls.append(f'emit_header({wx}, "{t[1]}")')
            elif t[0] == 'lit':
                esc = t[1].replace('\\', '\\\\').replace('"', '\\"')
                calls.append(f'emit_lit({wx}, "{esc}")')
            elif t[0] == 'version':
                calls.append(f'emit_version_prefix({wx})')
            elif t[0] == 'keytext':
                calls.append(f'emit_key_text({wx}, "{t[1]}")')
            elif t[0] == 'arg':
                e = t[1]
                cm = re.fullmatch(r'(.+?)\s+as\s+i32', e, flags=re.S)
                if cm:
                    e = f'as_i32({cm.group(1).strip()})'
                calls.append(f'emit_arg({wx}, &({e}))')   # format macros take their arguments by reference
        if not calls:
            raise LostAnchor('R10: write without output')
        return '({ ' + ' '.join(c + '?;' for c in calls[:-1]) + ' ' + calls[-1] + ('?' if q_last else '') + ' })'

    def in_cut(pos):
        return any(a <= pos < b for a, b in cuts)

    for m in re.finditer(r'\b(write|writeln)!\s*\(', msk):
        if in_cut(m.start()):
            continue
        o = m.end() - 1
        c = match_close(msk, o)
        parts = _split_top(body[o + 1:c])
        if len(parts) < 2 or parts[0] != writer:
            continue
        fm = re.fullmatch(r'"((?:[^"\\]|\\.)*)"', parts[1].strip(), flags=re.S)
        if not fm:
            raise LostAnchor('R10: format is not a string literal')
        fmt = _unescape_rust(fm.group(1))
        if m.group(1) == 'writeln':
            fmt += '\n'
        named, positional = {}, []
        for a in parts[2:]:
            am = re.match(r'^([A-Za-z_]\w*)\s*=(?!=)\s*(.*)$', a, flags=re.S)
            if am:
                named[am.group(1)] = am.group(2).strip()
            else:
                positional.append(a)
        toks, npos = [], 0
        for pc in _fmt_pieces(fmt):
            if pc[0] == 'lit':
                toks.extend(lit_tokens(pc[1]))
            else:
                if pc[1] is None:
                    if npos >= len(positional):
                        raise LostAnchor('R10: positional placeholder without argument')
                    toks.append(('arg', positional[npos]))
                    npos += 1
                elif pc[1].isdigit():
                    toks.append(('arg', positional[int(pc[1])]))
                else:
                    toks.append(('arg', named.get(pc[1], pc[1])))
        end = c + 1
        tail = re.match(r'\s*\?', body[end:])
        if tail:
            end += tail.end()
        edits.append((m.start(), end, render(toks, bool(tail))))
        log['R10 write! -> typed emissions'] = log.get('R10 write! -> typed emissions', 0) + 1
    for m in re.finditer(r'\b' + re.escape(writer) + r'\s*\.\s*write_all\s*\(', msk):
        if in_cut(m.start()):
            continue
        o = m.end() - 1
        c = match_close(msk, o)
        arg = body[o + 1:c].strip()
        bm = re.fullmatch(r'b"((?:[^"\\]|\\.)+)"', arg)
        if not bm:
            raise LostAnchor(f'R10: unsupported write_all argument {arg[:40]!r}')
        end = c + 1
        tail = re.match(r'\s*\?', body[end:])
        if tail:
            end += tail.end()
        edits.append((m.start(), end, render(lit_tokens(_unescape_rust(bm.group(1))), bool(tail))))
        log['R10 write_all -> typed emissions'] = log.get('R10 write_all -> typed emissions', 0) + 1
    return edits


def r14_edits(body, msk, log):
    """rule R14: a compound assignment `L op= E;` (op one of + - * /) is written out as `L = L op (E);` --
    the same evaluation (L is a place expression without side effects: a local, `*ident`, a field path);
    Verus has no compound assignment on floats"""
    edits = []
    for m in re.finditer(r'(?<![-+*/=<>!&|^%])([-+*/])=(?!=)', msk):
        op = m.group(1)
        a = m.start()
        while a > 0 and msk[a - 1] not in ';{}':
            a -= 1
        lhs = body[a:m.start()].strip()
        if not re.fullmatch(r'\*?\s*\w+(\s*\.\s*\w+)*', lhs):
            raise LostAnchor(f'R14: left side {lhs!r} of a compound assignment is not a plain place expression')
        depth, e = 0, m.end()
        while e < len(msk) and not (msk[e] == ';' and depth == 0):
            if msk[e] in '([{':
                depth += 1
            elif msk[e] in ')]}':
                depth -= 1
            e += 1
        if e >= len(msk):
            raise LostAnchor('R14: compound assignment without a terminating `;`')
        edits.append((m.start(), m.end(), f'= {lhs} {op} ('))
        edits.append((e, e, ')'))
        log['R14 compound assignment written out'] = log.get('R14 compound assignment written out', 0) + 1
    return edits


def r12_edits(body, msk, log):
    """R12, mechanical: the crate is verified as the pinned test command builds it, i.e. WITHOUT the
    optional `tracing` feature: every statement / block under `#[cfg(feature = "tracing")]` is removed,
    and lint attributes (`#[allow(..)]`) inside bodies are dropped."""
    from extract import match_close
    edits = []
    for m in re.finditer(r'#\[cfg\(feature\s*=\s*"tracing"\)\]', body):
        if msk[m.start()] != '#':
            continue
        j = m.end()
        while j < len(body) and body[j] in ' \t\n':
            j += 1
        if msk[j] == '{':
            end = match_close(msk, j) + 1
        elif re.match(r'if\b', msk[j:]):
            o = msk.find('{', j)
            end = match_close(msk, o) + 1
        else:
            k = j
            while k < len(msk) and msk[k] != ';':
                if msk[k] in '([{':
                    k = match_close(msk, k)
                k += 1
            end = k + 1
        edits.append((m.start(), end, ''))
        log['R12 cfg(feature="tracing") code removed (feature off)'] = log.get('R12 cfg(feature="tracing") code removed (feature off)', 0) + 1
    for m in re.finditer(r'#\[allow\([^\]]*\)\]', body):
        if msk[m.start()] != '#':
            continue
        edits.append((m.start(), m.end(), ''))
        log['R1 strip attrs/docs'] = log.get('R1 strip attrs/docs', 0) + 1
    return edits


def r7_edits(body, msk, writer, log, cuts=()):
    """R7, mechanical: every `write!(W, "FMT", args..)?` and `W.write_all(..)?` becomes an
    emission of the LAST BYTE the call writes:
      FMT ends with a literal char c            -> emit_byte(W, b'c')
      FMT ends with a placeholder {name}/{}     -> emit_last(W, <expression bound to it>)
      W.write_all(b"..x")                       -> emit_byte(W, b'x')
      W.write_all(slice::from_ref(&E))          -> emit_byte(W, E)
    All other format arguments (the rendered numbers) are dropped."""
    from extract import match_close
    edits = []
    def in_cut(pos):
        return any(a <= pos < b for a, b in cuts)

    for m in re.finditer(r'\bwrite!\s*\(', msk):
        if in_cut(m.start()):
            continue
        o = m.end() - 1
        c = match_close(msk, o)
        inner = body[o + 1:c]
        parts = _split_top(inner)
        if len(parts) < 2 or parts[0] != writer:
            continue
        fm = re.fullmatch(r'"((?:[^"\\]|\\.)*)"', parts[1].strip(), flags=re.S)
        if not fm:
            raise LostAnchor('R7: write! format is not a string literal')
        fmt = fm.group(1)
        args = parts[2:]
        named = {}
        positional = []
        for a in args:
            am = re.match(r'^([A-Za-z_]\w*)\s*=(?!=)\s*(.*)$', a, flags=re.S)
            if am:
                named[am.group(1)] = am.group(2).strip()
            else:
                positional.append(a)
        pm = re.search(r'\{([A-Za-z_]\w*)?(?::[^}]*)?\}$', fmt)
        end = c + 1
        tail = re.match(r'\s*\?', body[end:])
        q = '?' if tail else ''
        if tail:
            end += tail.end()
        if pm:
            nm = pm.group(1)
            if nm is None:
                n_pos = len(re.findall(r'\{(?::[^}]*)?\}', fmt))
                if n_pos - 1 >= len(positional):
                    raise LostAnchor('R7: positional placeholder without argument')
                expr = positional[n_pos - 1]
            else:
                expr = named.get(nm, nm)
            rep = f'emit_last({writer}, {expr}){q}'
        else:
            last = fmt[-1] if fmt else ''
            if not last or last == '\\':
                raise LostAnchor('R7: cannot determine last byte of format')
            ch = "\\'" if last == "'" else last
            if fmt.endswith('\\n'):
                ch = '\\n'
            rep = f"emit_byte({writer}, b'{ch}'){q}"
        edits.append((m.start(), end, rep))
        log['R7 write! -> emit'] = log.get('R7 write! -> emit', 0) + 1
    for m in re.finditer(r'\b' + re.escape(writer) + r'\s*\.\s*write_all\s*\(', msk):
        if in_cut(m.start()):
            continue
        o = m.end() - 1
        c = match_close(msk, o)
        arg = body[o + 1:c].strip()
        end = c + 1
        tail = re.match(r'\s*\?', body[end:])
        q = '?' if tail else ''
        if tail:
            end += tail.end()
        bm = re.fullmatch(r'b"((?:[^"\\]|\\.)+)"', arg)
        sm = re.fullmatch(r'slice::from_ref\(\s*&\s*(.+)\)', arg, flags=re.S)
        if bm:
            lit = bm.group(1)
            ch = lit[-2:] if len(lit) >= 2 and lit[-2] == '\\' else lit[-1]
            rep = f"emit_byte({writer}, b'{ch}'){q}"
        elif sm:
            rep = f'emit_byte({writer}, {sm.group(1).strip()}){q}'
        else:
            raise LostAnchor(f'R7: unsupported write_all argument {arg[:40]!r}')
        edits.append((m.start(), end, rep))
        log['R7 write_all -> emit'] = log.get('R7 write_all -> emit', 0) + 1
    return edits


def drop_dead_lets(body, log):
    """after R7: a single-line `let PATTERN = EXPR;` whose bound names occur nowhere
    else only fed dropped format arguments; it is removed (reported)."""
    changed = True
    while changed:
        changed = False
        msk = mask(body)
        for m in re.finditer(r'^[ \t]*let\s+(\(?[A-Za-z_][\w\s,]*\)?)\s*=\s*[^;\n]*;[ \t]*\n', msk, flags=re.M):
            names = re.findall(r'[A-Za-z_]\w*', m.group(1))
            names = [n for n in names if n != 'mut']
            rest = msk[:m.start()] + msk[m.end():]
            if names and all(not re.search(r'\b' + re.escape(n) + r'\b', rest) for n in names):
                body = body[:m.start()] + body[m.end():]
                log['R7 dead let dropped (fed only dropped format arguments)'] = log.get('R7 dead let dropped (fed only dropped format arguments)', 0) + 1
                changed = True
                break
    return body


def _kept_exits(region, log):
    """R13: a CUT region is dropped, but its EXITS are not: every `return E;` in it (outside nested fn
    items) is kept as `if cut_region_exit() { return E; }` -- the dropped code may or may not take it."""
    from extract import match_close
    m = mask(region)
    # blank out nested fn items
    mm = list(m)
    for f in re.finditer(r'\bfn\s+\w+', m):
        o = m.find('{', f.end())
        if o >= 0:
            try:
                c = match_close(m, o)
            except LostAnchor:
                continue
            for k in range(f.start(), c + 1):
                if mm[k] != '\n':
                    mm[k] = ' '
    m2 = ''.join(mm)
    out = []
    for r in re.finditer(r'\breturn\b([^;]*);', m2):
        expr = region[r.start(1):r.end(1)].strip()
        out.append(f'if cut_region_exit() {{ return {expr}; }}')
        log['R13 exit of a CUT region kept'] = log.get('R13 exit of a CUT region kept', 0) + 1
    return ' '.join(out)



def _anchor_re(anchor):
    """anchors match the source text up to LAYOUT: between any two lexical tokens of the anchor any amount of
    whitespace (none included) may appear in the source, two adjacent words need at least one blank, and a
    closing bracket may be preceded by the trailing comma rustfmt adds when it wraps a list -- re-formatting the
    code does not lose an anchor"""
    toks = re.findall(r'\w+|\S', anchor)
    if not toks:
        return re.compile(re.escape(anchor))
    pat = ''
    prev = None
    for t in toks:
        e = re.escape(t)
        if t in ')]}':
            e = r'(?:,\s*)?' + e
        if prev is not None:
            pat += r'\s+' if (re.fullmatch(r'\w+', prev) and re.fullmatch(r'\w+', t)) else r'\s*'
        pat += e
        prev = t
    return re.compile(pat)


def _find_spans(body, anchor):
    return [(m.start(), m.end()) for m in _anchor_re(anchor).finditer(body)]


def _find_from(body, anchor, start=0):
    if anchor.strip() == '$END':      # the end of the function body
        return (len(body), len(body))
    m = _anchor_re(anchor).search(body, start)
    return (m.start(), m.end()) if m else (-1, -1)


def _cut_regions(body, msk, dirs):
    """source ranges removed by CUT / CUTBLOCK directives (write! calls inside them are not rewritten)"""
    from extract import match_close
    cuts = []
    for d2 in dirs:
        if d2[0] == 'CUT':
            a2, e2 = _find_from(body, d2[1])
            b2 = _find_from(body, d2[2], e2)[0] if a2 >= 0 else -1
            if a2 >= 0 and b2 >= 0:
                cuts.append((a2, b2))
        elif d2[0] == 'CUTBLOCK':
            a2, e2 = _find_from(body, d2[1])
            o2 = msk.find('{', e2) if a2 >= 0 else -1
            if o2 >= 0:
                cuts.append((o2 + 1, match_close(msk, o2)))
    return cuts


def transform_body(body, dirs, log):
    edits = []  # (start, end, replacement)
    msk = mask(body)
    for d in dirs:
        kind = d[0]
        if kind == 'CLOSURE':
            n, header = d[1], d[2]
            cl = find_closures(body)
            if n >= len(cl):
                raise LostAnchor(f'closure #{n} not found (have {len(cl)})')
            s, pe, ee = cl[n]
            expr = body[pe + 1:ee].strip()
            if expr.startswith('{'):
                rep = f'{header} {expr}'
            else:
                rep = f'{header} {{ {expr} }}'
            edits.append((s, ee, rep))
            log['R3 closure header'] = log.get('R3 closure header', 0) + 1
        elif kind == 'LOOP':
            n, inv = d[1], d[2]
            lp = find_loops(body)
            if n >= len(lp):
                raise LostAnchor(f'loop #{n} not found (have {len(lp)})')
            k, br = lp[n]
            edits.append((br, br, '\n' + inv + '\n'))
            log['R5 loop invariant'] = log.get('R5 loop invariant', 0) + 1
        elif kind == 'LOOPBODY':
            n, text = d[1], d[2]
            lp = find_loops(body)
            if n >= len(lp):
                raise LostAnchor(f'loop #{n} not found (have {len(lp)})')
            k, br = lp[n]
            edits.append((br + 1, br + 1, ' ' + text))
            log['R5 proof insert'] = log.get('R5 proof insert', 0) + 1
        elif kind == 'AFTERLOOP':
            n, text = d[1], d[2]
            lp = find_loops(body)
            if n >= len(lp):
                raise LostAnchor(f'loop #{n} not found (have {len(lp)})')
            from extract import match_close
            c = match_close(msk, lp[n][1])
            edits.append((c + 1, c + 1, ' ' + text))
            log['R5 proof insert'] = log.get('R5 proof insert', 0) + 1
        elif kind == 'SUB':
            cnt, old, new = d[1], d[2], d[3]
            pos = _find_spans(body, old)
            if cnt >= 0 and len(pos) != cnt:
                raise LostAnchor(f'SUB anchor {old!r}: expected {cnt} occurrence(s), found {len(pos)}')
            for p, pe in pos:
                edits.append((p, pe, new))
            log['SUB rewrite'] = log.get('SUB rewrite', 0) + len(pos)
        elif kind in ('BEFORE', 'AFTER'):
            n, anchor, text = d[1], d[2], d[3]
            pos = _find_spans(body, anchor)
            if n >= len(pos):
                raise LostAnchor(f'{kind} anchor {anchor!r} #{n}: found {len(pos)}')
            p = pos[n][0] if kind == 'BEFORE' else pos[n][1]
            edits.append((p, p, text))
            log['R5 proof insert'] = log.get('R5 proof insert', 0) + 1
        elif kind == 'BEFOREEACH':
            anchor, text = d[1], d[2]
            for a3, _e3 in _find_spans(body, anchor):
                edits.append((a3, a3, text))
                log['R5 proof insert'] = log.get('R5 proof insert', 0) + 1
        elif kind == 'CUT':
            start, end = d[1], d[2]
            a, a_end = _find_from(body, start)
            if a < 0:
                raise LostAnchor(f'CUT start anchor {start!r} not found')
            b = _find_from(body, end, a_end)[0]
            if b < 0:
                raise LostAnchor(f'CUT end anchor {end!r} not found')
            edits.append((a, b, _kept_exits(body[a:b], log)))
            log['CUT (source lines dropped)'] = log.get('CUT (source lines dropped)', 0) + body[a:b].count('\n')
        elif kind == 'FORWHILE':
            n = d[1]
            lp = find_loops(body)
            if n >= len(lp):
                raise LostAnchor(f'loop #{n} not found (have {len(lp)})')
            k, br = lp[n]
            mr = re.fullmatch(r'for\s+(\w+)\s+in\s+\((.+?)\.\.(?!=)(.+?)\)\s*\.rev\(\)\s*', body[k:br], flags=re.S)
            m = re.fullmatch(r'for\s+(\w+)\s+in\s+(.+?)\.\.(?!=)(.+?)\s*', body[k:br], flags=re.S)
            if mr:
                # `(a..b).rev()` yields b-1, b-2, .., a
                var, lo_, hi_ = mr.group(1), mr.group(2).strip(), mr.group(3).strip()
                sfx = f'_{var}'
                edits.append((k, br, f'let verif_lo{sfx}: usize = {lo_}; let mut verif_it{sfx}: usize = {hi_}; while verif_it{sfx} > verif_lo{sfx} '))
                edits.append((br + 1, br + 1, f' verif_it{sfx} = verif_it{sfx} - 1; let {var} = verif_it{sfx};'))
            elif m:
                var, lo_, hi_ = m.group(1), m.group(2).strip(), m.group(3).strip()
                edits.append((k, br, f'let mut verif_it: usize = {lo_}; let verif_end: usize = {hi_}; while verif_it < verif_end '))
                edits.append((br + 1, br + 1, f' let {var} = verif_it; verif_it = verif_it + 1;'))
            elif re.fullmatch(r'for\s+\(\s*(\w+)\s*,\s*(\w+)\s*\)\s+in\s+(\w+)\s*\.iter\(\)\s*\.copied\(\)\s*\.enumerate\(\)\s*', body[k:br], flags=re.S):
                # `for (i, x) in v.iter().copied().enumerate()`: the index runs over 0..v.len(), x is the copy of v[i]
                me = re.fullmatch(r'for\s+\(\s*(\w+)\s*,\s*(\w+)\s*\)\s+in\s+(\w+)\s*\.iter\(\)\s*\.copied\(\)\s*\.enumerate\(\)\s*', body[k:br], flags=re.S)
                iv, xv, vec = me.group(1), me.group(2), me.group(3)
                edits.append((k, br, f'let mut verif_it: usize = 0; while verif_it < {vec}.len() '))
                edits.append((br + 1, br + 1, f' let {iv} = verif_it; let {xv} = {vec}[verif_it]; verif_it = verif_it + 1;'))
            elif re.fullmatch(r'for\s+(\w+)\s+in\s+([\w.]+?)\s*\.iter_mut\(\)\s*', body[k:br], flags=re.S):
                # `for h in v.iter_mut()`: h is `&mut v[i]` for i in 0..v.len(), in order (v a Vec / slice place)
                mm = re.fullmatch(r'for\s+(\w+)\s+in\s+([\w.]+?)\s*\.iter_mut\(\)\s*', body[k:br], flags=re.S)
                hv, vec = mm.group(1), mm.group(2)
                edits.append((k, br, f'let mut verif_it: usize = 0; while verif_it < {vec}.len() '))
                edits.append((br + 1, br + 1, f' let {hv} = &mut {vec}[verif_it]; verif_it = verif_it + 1;'))
            else:
                mi = re.fullmatch(r'for\s+(.+?)\s+in\s+(\w+)\s*', body[k:br], flags=re.S)
                if not mi:
                    raise LostAnchor(f'FORWHILE loop #{n}: head {body[k:br]!r} is not `for x in a..b` / `for x in (a..b).rev()` / `for p in ident`')
                # `for P in it {B}` over an ITERATOR `it` is `while let Some(P) = it.next() {B}`
                edits.append((k, br, f'while let Some({mi.group(1)}) = {mi.group(2)}.next() '))
            log['R9 for-range loop desugared to while'] = log.get('R9 for-range loop desugared to while', 0) + 1
        elif kind == 'CUTBLOCK':
            anchor, rep = d[1], d[2]
            pos = _find_spans(body, anchor)
            if len(pos) != 1:
                raise LostAnchor(f'CUTBLOCK anchor {anchor!r}: expected 1 occurrence, found {len(pos)}')
            o = msk.find('{', pos[0][1])
            if o < 0:
                raise LostAnchor(f'CUTBLOCK anchor {anchor!r}: no block follows')
            from extract import match_close
            c = match_close(msk, o)
            edits.append((o + 1, c, ' ' + rep + ' ' + _kept_exits(body[o + 1:c], log)))
            log['CUT (source lines dropped)'] = log.get('CUT (source lines dropped)', 0) + body[o:c].count('\n')
        elif kind == 'R7':
            cuts = []
            for d2 in dirs:
                if d2[0] == 'CUT':
                    a2, e2 = _find_from(body, d2[1])
                    b2 = _find_from(body, d2[2], e2)[0] if a2 >= 0 else -1
                    if a2 >= 0 and b2 >= 0:
                        cuts.append((a2, b2))
            edits.extend(r7_edits(body, msk, d[1], log, cuts))
        elif kind == 'R12':
            edits.extend(r12_edits(body, msk, log))
        elif kind == 'R14':
            edits.extend(r14_edits(body, msk, log))
        elif kind == 'R10':
            opt = d[2] or ''
            rec = 'mode=record' in opt.split()
            wexpr = ' '.join(x for x in opt.split() if x != 'mode=record') or None
            edits.extend(r10_edits(body, msk, d[1], log, _cut_regions(body, msk, dirs), wexpr, rec))
        elif kind == 'PRE':
            edits.append((0, 0, d[1] + '\n'))
            log['R5 proof insert'] = log.get('R5 proof insert', 0) + 1
        elif kind == 'POST':
            edits.append((len(body), len(body), '\n' + d[1] + '\n'))
            log['R5 proof insert'] = log.get('R5 proof insert', 0) + 1
        elif kind == 'SELF':
            ident = d[1]
            for m in re.finditer(r'\bself\b', msk):
                edits.append((m.start(), m.end(), ident))
            log['R2 self rename'] = log.get('R2 self rename', 0) + 1
    edits.sort(key=lambda e: (e[0], 0 if e[0] == e[1] else 1, -e[1]))   # zero-width inserts before replacements starting at the same offset
    # overlap check; a SELF edit inside another edit's range is dropped only if
    # the enclosing edit is a CLOSURE (its expr is re-emitted verbatim) -> handle
    # by applying SELF to the replacement text instead
    final = []
    for e in edits:
        if final and e[0] < final[-1][1]:
            prev = final[-1]
            if e[2] != 'self' and re.fullmatch(r'\w+', e[2]) and body[e[0]:e[1]] == 'self':
                # rename inside previous replacement
                final[-1] = (prev[0], prev[1], re.sub(r'\bself\b', e[2], prev[2]))
                continue
            # an edit nested inside a CLOSURE edit (whose expression is re-emitted
            # verbatim): apply it to the replacement text instead
            inner = body[e[0]:e[1]]
            if e[1] <= prev[1] and inner and prev[2].count(inner) == 1:
                final[-1] = (prev[0], prev[1], prev[2].replace(inner, e[2]))
                continue
            raise LostAnchor(f'overlapping edits at {e[0]}')
        final.append(e)
    out = body
    for s, e, r in reversed(final):
        out = out[:s] + r + out[e:]
    if any(d[0] == 'R7' for d in dirs):
        out = drop_dead_lets(out, log)
    return out


def assemble(template_path, repo):
    asm = Assembled()
    out = []

    def load(path):
        return open(path).read().split('\n')

    lines = load(template_path)
    # pre-expand INCLUDEs (recursively) so they may appear anywhere, also inside FN blocks
    k = 0
    while k < len(lines):
        st0 = lines[k].strip()
        if st0.startswith('//@@ INCLUDE'):
            inc = st0.split(None, 2)[2].strip()
            lines[k:k + 1] = load(os.path.join(CONTRACTS, inc))
            continue
        k += 1
    i = 0
    while i < len(lines):
        ln = lines[i]
        st = ln.strip()
        if False and st.startswith("//@@ INCLUDE"):
            inc = st.split(None, 2)[2].strip()
            sub = load(os.path.join(CONTRACTS, inc))
            lines[i:i + 1] = sub
            continue
        if st.startswith('//@@ CHECKSIG'):
            txt, i = _read_directives(lines, i)
            head = txt.strip()[len('//@@ CHECKSIG'):]
            spec = head[:head.index('<<<')].strip()
            parts = [p.strip().replace(';;', '::') for p in spec.split('::')]
            f, path = parts[0], parts[1:]
            src = open(os.path.join(repo, f)).read()
            it = find_item(src, path)
            want = _payloads(txt)[0]
            if norm(want) != norm(it.signature):
                raise LostAnchor(f'CHECKSIG {spec}: repo has `{norm(it.signature)}`, contract expects `{norm(want)}`')
            asm.rules['CHECKSIG'] = asm.rules.get('CHECKSIG', 0) + 1
            out.append(f'// signature checked against {f} :: {" :: ".join(path)}')
            continue
        if st.startswith('//@@ ITEM'):
            spec = st[len('//@@ ITEM'):].strip()
            parts = [p.strip() for p in spec.split('::')]
            # allow `::` inside headers via `;;` escape
            parts = [p.replace(';;', '::') for p in parts]
            f, path = parts[0], parts[1:]
            src = open(os.path.join(repo, f)).read()
            it = find_item(src, path)
            dirs = []
            i += 1
            prefix = ''
            while True:
                if i >= len(lines):
                    raise LostAnchor('ITEM without END')
                s2 = lines[i].strip()
                if s2.startswith('//@@ END'):
                    i += 1
                    break
                if s2.startswith('//@@ SUB'):
                    txt, i = _read_directives(lines, i)
                    cnt = int(txt.split()[2])
                    p = _payloads(txt)
                    dirs.append(('SUB', cnt, p[0], p[1]))
                    continue
                if s2.startswith('//@@ PREFIX'):
                    txt, i = _read_directives(lines, i)
                    prefix = _payloads(txt)[0]
                    continue
                raise LostAnchor(f'unexpected line in ITEM block: {s2}')
            text = strip_attrs_docs(src[it.qual_start():it.end])
            asm.rules['R1 strip attrs/docs'] = asm.rules.get('R1 strip attrs/docs', 0) + 1
            text = transform_body(text, dirs, asm.rules)
            out.append(f'// ---- extracted verbatim from {f} :: {" :: ".join(path)}')
            if prefix:
                out.append(prefix)
            out.extend(text.split('\n'))
            asm.items.append({'file': f, 'path': path})
            continue
        if st.startswith('//@@ FN'):
            spec = st[len('//@@ FN'):].strip()
            parts = [p.strip().replace(';;', '::') for p in spec.split('::')]
            f, path = parts[0], parts[1:]
            src = open(os.path.join(repo, f)).read()
            it = find_item(src, path)
            dirs = []
            sig = None
            hdr_lines = []
            i += 1
            while True:
                if i >= len(lines):
                    raise LostAnchor('FN without BODY')
                s2 = lines[i].strip()
                if s2.startswith('//@@ BODY'):
                    i += 1
                    break
                if s2.startswith('//@@'):
                    txt, i = _read_directives(lines, i)
                    toks = txt.strip().split()
                    kind = toks[1]
                    p = _payloads(txt)
                    if kind == 'SIG':
                        sig = p[0]
                    elif kind == 'SELF':
                        dirs.append(('SELF', toks[2]))
                    elif kind in ('CLOSURE', 'LOOP', 'LOOPBODY', 'AFTERLOOP'):
                        dirs.append((kind, int(toks[2]), p[0]))
                    elif kind == 'SUB':
                        dirs.append(('SUB', -1 if toks[2] == '*' else int(toks[2]), p[0], p[1]))   # `*`: every occurrence, none is fine
                    elif kind in ('BEFORE', 'AFTER'):
                        dirs.append((kind, int(toks[2]), p[0], p[1]))
                    elif kind in ('PRE', 'POST'):
                        dirs.append((kind, p[0]))
                    elif kind == 'CUT':
                        dirs.append(('CUT', p[0], p[1]))
                    elif kind == 'CUTBLOCK':
                        dirs.append(('CUTBLOCK', p[0], p[1]))
                    elif kind == 'BEFOREEACH':
                        dirs.append(('BEFOREEACH', p[0], p[1]))
                    elif kind == 'FORWHILE':
                        dirs.append(('FORWHILE', int(toks[2])))
                    elif kind == 'R7':
                        dirs.append(('R7', toks[2]))
                    elif kind == 'R12':
                        dirs.append(('R12',))
                    elif kind == 'R14':
                        dirs.append(('R14',))
                    elif kind == 'R10':
                        dirs.append(('R10', toks[2], ' '.join(toks[3:]) or None))
                    else:
                        raise LostAnchor(f'unknown directive {kind}')
                    continue
                hdr_lines.append(lines[i])
                i += 1
            if sig is None:
                raise LostAnchor(f'FN {spec}: missing SIG')
            if norm(sig) != norm(it.signature):
                raise LostAnchor(f'FN {spec}: signature changed: repo has `{norm(it.signature)}`, contract expects `{norm(sig)}`')
            body = transform_body(it.body, dirs, asm.rules)
            lo = len(out) + 1
            out.append(f'// ---- body extracted from {f} :: {" :: ".join(path)}')
            out.extend(hdr_lines)
            out.append('{')
            out.extend(body.split('\n'))
            out.append('}')
            hi = len(out)
            name = path[-1].replace('fn ', '').strip()
            asm.functions.append({'name': name, 'file': f, 'path': path, 'line_lo': lo, 'line_hi': hi,
                                  'src_line': src[:it.hdr_start].count('\n') + 1})
            continue
        out.append(ln)
        i += 1
    asm.text = '\n'.join(out) + '\n'
    for n, l in enumerate(asm.text.split('\n'), 1):
        s = l.strip()
        if s.startswith('//'):
            continue
        if re.search(r'\bassume_specification\b|external_body|\bassume\s*\(|\badmit\s*\(|external_fn_specification|\bexternal\b\]|broadcast axiom|\baxiom fn\b', s):
            asm.trusted.append(f'line {n}: {s[:160]}')
    return asm


RLIMIT_PAT = re.compile(r'[Rr]esource limit|rlimit')
REFUTE_PAT = re.compile(r'precondition not met|index in bounds|unable to prove post-condition of closure|postcondition not satisfied|precondition not satisfied|assertion failed|invariant not satisfied|possible arithmetic (under|over)flow|possible division by zero|index out of bounds|loop invariant|decreases not satisfied|unreachable|failed this|could not (prove|show)')


def run_verus(path, rlimit=30, timeout=600, extra=None):
    cmd = ['verus', path, '--triggers-mode', 'silent', '--output-json', '--time', '--error-format=json',
           '--rlimit', str(rlimit), '--multiple-errors', '5']
    if extra:
        cmd += extra
    t0 = time.time()
    env = dict(os.environ)
    try:
        p = subprocess.run(cmd, capture_output=True, text=True, timeout=timeout, cwd=os.path.dirname(path), env=env)
    except subprocess.TimeoutExpired:
        return {'status': 'timeout', 'wall_s': time.time() - t0, 'diags': [], 'funcs': [], 'cmd': ' '.join(cmd)}
    wall = time.time() - t0
    res = {'status': None, 'wall_s': wall, 'diags': [], 'funcs': [], 'cmd': ' '.join(cmd), 'rc': p.returncode}
    try:
        o = json.loads(p.stdout)
    except Exception:
        o = None
    diags = []
    vstd_span = None
    for l in p.stderr.split('\n'):
        l = l.strip()
        m_sp = re.match(r'\[rust_verify/[^\]]*\] &sp\.as_string = "([^"]*)"', l)
        if m_sp:
            vstd_span = m_sp.group(1)   # where in vstd the failed precondition is declared
            continue
        if not l.startswith('{'):
            continue
        try:
            d = json.loads(l)
        except Exception:
            continue
        if d.get('level') in ('error', 'error: internal compiler error'):
            diags.append({'message': d.get('message', ''),
                          'spans': [{'line': s.get('line_start'), 'label': s.get('label'),
                                     'text': (s.get('text') or [{}])[0].get('text', '').strip()[:200]}
                                    for s in d.get('spans', [])],
                          'vstd_span': vstd_span,
                          'rendered': (d.get('rendered') or '')[:2000]})
            vstd_span = None
    res['diags'] = [d for d in diags if not d['message'].startswith('aborting due to')]
    if o is None:
        res['status'] = 'tool-error'
        res['stderr_tail'] = p.stderr[-2000:]
        return res
    vr = o.get('verification-results', {})
    res['verified'] = vr.get('verified', 0)
    res['errors'] = vr.get('errors', 0)
    tm = o.get('times-ms', {})
    res['smt_ms'] = tm.get('smt', {}).get('total')
    res['total_ms'] = tm.get('total')
    funcs = []
    for m in tm.get('smt', {}).get('smt-run-module-times', []):
        for fb in m.get('function-breakdown', []):
            funcs.append({'function': fb.get('function'), 'mode': fb.get('mode:') or fb.get('mode'),
                          'ms': fb.get('time'), 'rlimit': fb.get('rlimit'), 'success': fb.get('success')})
    res['funcs'] = funcs
    if vr.get('success'):
        res['status'] = 'verified'
    elif vr.get('encountered-vir-error') or (vr.get('errors', 0) == 0 and not vr.get('success')):
        res['status'] = 'tool-error'   # syntax/type/unsupported-construct: not a verdict
        res['stderr_tail'] = p.stderr[-3000:]
    else:
        # a failed precondition that is NOT declared in the unit file (no span labelled
        # `failed precondition`) belongs to vstd / a built-in operator -- typically float
        # arithmetic, which Verus cannot reason about: unsupported construct, not a verdict
        for d in res['diags']:
            builtin = d['message'].startswith('precondition not satisfied') and not any((sp.get('label') or '').startswith('failed precondition') for sp in d['spans'])
            vs = d.get('vstd_span') or ''
            if builtin and re.match(r'std_specs/(core|slice|vec)\.rs', vs):
                # index / range / length precondition of a std slice or Vec operation
                # (vstd's specification of the panic condition): a genuine obligation
                d['message'] = f'precondition not satisfied: index / range / length condition of a std slice operation ({vs.split(" ")[0]})'
            elif builtin:
                d['message'] = 'unsupported construct (precondition of a built-in / vstd operation, e.g. float arithmetic): ' + d['message']
                d['unsupported'] = True
        if res['diags'] and all(d.get('unsupported') for d in res['diags']):
            res['status'] = 'tool-error'
            res['stderr_tail'] = 'unsupported construct in extracted code'
            return res
        res['diags_all'] = res['diags']
        res['diags'] = [d for d in res['diags'] if not d.get('unsupported')]
        msgs = ' | '.join(d['message'] for d in res['diags'])
        if RLIMIT_PAT.search(msgs) and not any(REFUTE_PAT.search(d['message']) for d in res['diags']):
            res['status'] = 'rlimit'
        elif any(REFUTE_PAT.search(d['message']) for d in res['diags']):
            res['status'] = 'refuted'
        else:
            res['status'] = 'tool-error'
            res['stderr_tail'] = p.stderr[-3000:]
    return res


if __name__ == '__main__':
    tpl, repo, outp = sys.argv[1], sys.argv[2], sys.argv[3]
    try:
        a = assemble(tpl, repo)
    except LostAnchor as e:
        print('LOST ANCHOR:', e)
        sys.exit(2)
    open(outp, 'w').write(a.text)
    print('rules:', a.rules)
    print('functions:', [f['name'] for f in a.functions])
    r = run_verus(outp)
    print(r['status'], 'verified=', r.get('verified'), 'errors=', r.get('errors'), 'wall=%.1f' % r['wall_s'])
    for d in r['diags']:
        print('  -', d['message'])
        for s in d['spans']:
            print('      line', s['line'], s['label'], '|', s['text'])
    if r['status'] == 'tool-error':
        print(r.get('stderr_tail', '')[-3000:])
