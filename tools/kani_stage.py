#!/usr/bin/env python3
"""Kani stage.

A scratch copy of the repository's working tree is made on every run; the only
edits applied to it are ADDITIVE (checked): harness modules appended to the file
that owns the (possibly private) function, and contract attributes inserted
above `fn` lines.  The function bodies CBMC sees are byte-for-byte /repo's.

.kc file format (Rust text with directive comments):

  //@@ TARGET <file relative to repo>      the module text below is appended to it
  //@@ ATTR <file> :: <hdr> [:: <hdr>] <<<attribute lines>>>    (optional)
  //@@ HARNESS <name> | level=proved|bounded | tier=quick|thorough | flags=<group>
  //@@         | timeout=<s> | bound=<text> | obligation=<text>
  #[kani::proof] ... fn <name>() { ... }

level=proved  : no loop / recursion depends on symbolic data (or unwinding
                assertions close it at an operand-width bound); full domain.
level=bounded : structural bound stated in bound=...; never counted as proved.
"""
import hashlib
import os
import re
import shutil
import subprocess
import sys
import time

sys.path.insert(0, os.path.dirname(os.path.abspath(__file__)))
from extract import LostAnchor, find_item  # noqa: E402

FLAG_GROUPS = {
    # Rust's own overflow/index/unwrap panics are MIR assertions and stay on in every group.
    'default': ['-Z', 'unstable-options', '--no-overflow-checks', '-Z', 'function-contracts', '-Z', 'stubbing'],
    # for reader harnesses: only assertions + unwinding assertions
    'nochecks': ['-Z', 'unstable-options', '--no-default-checks', '-Z', 'function-contracts', '-Z', 'stubbing'],
    # float-heavy: also no memory-safety instrumentation (pure value functions)
    'valueonly': ['-Z', 'unstable-options', '--no-overflow-checks', '--no-memory-safety-checks',
                  '-Z', 'function-contracts', '-Z', 'stubbing'],
}


class Harness:
    def __init__(self, name, meta, kc):
        self.name = name
        self.level = meta.get('level', 'bounded')
        self.tier = meta.get('tier', 'quick')
        self.flags = meta.get('flags', 'default')
        self.timeout = int(meta.get('timeout', '300'))
        self.bound = meta.get('bound', '')
        self.obligation = meta.get('obligation', name)
        self.expect = meta.get('expect', 'pass')    # 'pass' | 'cover' (reachability twin)
        self.finding = meta.get('finding')            # id of a known finding this harness witnesses
        self.native = meta.get('native', 'yes') == 'yes'   # 'no': stand-ins without native rendering -> no native playback
        self.optional = meta.get('optional', 'no') == 'yes'   # a solver timeout is reported but does not make the check undecided
        # 'yes': the obligation says the call returns BEFORE any loop longer than the unwind bound is entered (a rejection that
        # precedes a large allocation); a failed unwinding assertion is then itself the refutation, not a bound that is too small
        self.loops_unreached = meta.get('loops_unreached', 'no') == 'yes'
        self.kc = kc


def parse_kc(path):
    txt = open(path).read()
    target = None
    attrs = []
    harnesses = []
    lines = txt.split('\n')
    i = 0
    body = []
    while i < len(lines):
        ln = lines[i]
        s = ln.strip()
        if s.startswith('//@@ TARGET'):
            target = s.split(None, 2)[2].strip()
        elif s.startswith('//@@ ATTR'):
            full = ln
            while full.count('<<<') > full.count('>>>'):
                i += 1
                full += '\n' + lines[i]
            head = full.strip()[len('//@@ ATTR'):]
            spec = head[:head.index('<<<')].strip()
            parts = [p.strip().replace(';;', '::') for p in spec.split('::')]
            payload = re.findall(r'<<<(.*?)>>>(?!>)', full, flags=re.S)[0]
            attrs.append((parts[0], parts[1:], payload.strip('\n')))
        elif s.startswith('//@@ HARNESS'):
            full = s[len('//@@ HARNESS'):]
            while i + 1 < len(lines) and lines[i + 1].strip().startswith('//@@ ') and lines[i + 1].strip()[5:].lstrip().startswith('|'):
                i += 1
                full += ' ' + lines[i].strip()[5:]
            fields = [f.strip() for f in re.split(r'\s\|\s', ' ' + full + ' ')]
            name = fields[0]
            meta = {}
            for f in fields[1:]:
                if '=' in f:
                    k, v = f.split('=', 1)
                    meta[k.strip()] = v.strip()
            harnesses.append(Harness(name, meta, os.path.basename(path)))
            body.append(ln)
        else:
            body.append(ln)
        i += 1
    if target is None:
        raise LostAnchor(f'{path}: no TARGET')
    return target, attrs, harnesses, '\n'.join(body)


def is_additive(orig: str, new: str) -> bool:
    """every original line occurs in the new text in the same order"""
    it = iter(new.split('\n'))
    for l in orig.split('\n'):
        for m in it:
            if m == l:
                break
        else:
            return False
    return True


def stage(repo, kc_paths, workdir, extra_tests=None):
    """Create scratch copy with harnesses appended. Returns (scratch_repo, harness list)."""
    dst = os.path.join(workdir, 'repo')
    if os.path.exists(dst):
        shutil.rmtree(dst)
    os.makedirs(workdir, exist_ok=True)
    subprocess.run(['rsync', '-a', '--exclude', 'target', '--exclude', '.git', repo.rstrip('/') + '/', dst + '/'], check=True)
    # offline config
    os.makedirs(os.path.join(dst, '.cargo'), exist_ok=True)
    with open(os.path.join(dst, '.cargo', 'config.toml'), 'a') as f:
        f.write('\n[net]\noffline = true\n')
    all_h = []
    edits = {}
    for kc in kc_paths:
        target, attrs, hs, body = parse_kc(kc)
        all_h.extend(hs)
        edits.setdefault(target, {'append': [], 'attrs': []})
        if extra_tests and os.path.basename(kc) in extra_tests:
            # insert saved playback test(s) before the final closing brace of the module text
            k = body.rstrip().rfind('}')
            body = body[:k] + '\n' + extra_tests[os.path.basename(kc)] + '\n' + body[k:]
        edits[target]['append'].append(body)
        for f, path, payload in attrs:
            edits.setdefault(f, {'append': [], 'attrs': []})
            edits[f]['attrs'].append((path, payload))
    for f, e in edits.items():
        p = os.path.join(dst, f)
        if not os.path.exists(p):
            raise LostAnchor(f'target file {f} missing')
        orig = open(p).read()
        new = orig
        # attribute splices: from the bottom up so offsets stay valid
        ins = []
        for path, payload in e['attrs']:
            it = find_item(orig, path)
            pos = it.qual_start()
            line_start = orig.rfind('\n', 0, pos) + 1
            indent = orig[line_start:pos]
            ins.append((line_start, ''.join(indent + l + '\n' for l in payload.split('\n'))))
        for pos, text in sorted(ins, reverse=True):
            new = new[:pos] + text + new[pos:]
        for b in e['append']:
            new = new.rstrip('\n') + '\n\n' + b + '\n'
        if not is_additive(orig, new):
            raise LostAnchor(f'internal: non-additive edit of {f}')
        open(p, 'w').write(new)
    return dst, all_h


RES_BLOCK = re.compile(r'VERIFICATION:- (SUCCESSFUL|FAILED)')


def parse_output(out):
    """Return {harness_full_name: {status, failed_checks:[...], time}}"""
    results = {}
    cur = {}      # thread -> harness
    blocks = {}   # thread -> list of lines
    single = None
    lines = out.split('\n')
    i = 0
    thread_of_line = None
    for ln in lines:
        m = re.match(r'(?:Thread (\d+): )?Checking harness (\S+?)\.\.\.', ln)
        if m:
            th = m.group(1) or 's'
            cur[th] = m.group(2)
            blocks[th] = []
            thread_of_line = th
            continue
        m = re.match(r'Thread (\d+):\s*$', ln)
        if m:
            thread_of_line = m.group(1)
            continue
        if thread_of_line is not None and thread_of_line in cur:
            blocks[thread_of_line].append(ln)
            if ln.startswith('Verification Time:') or 'CBMC timed out' in ln or ln.startswith('[Kani] error'):
                h = cur[thread_of_line]
                txt = '\n'.join(blocks[thread_of_line])
                st = RES_BLOCK.search(txt)
                fails = []
                for fm in re.finditer(r'Failed Checks: (.*?)\n File: "([^"]*)", line (\d+)', txt, flags=re.S):
                    fails.append({'desc': ' '.join(fm.group(1).split()), 'file': fm.group(2), 'line': int(fm.group(3))})
                tm = re.search(r'Verification Time: ([0-9.]+)s', txt)
                results[h] = {'status': st.group(1) if st else 'UNKNOWN', 'failed_checks': fails,
                              'time_s': float(tm.group(1)) if tm else None, 'raw': txt[-3000:]}
                if single is None:
                    pass
    # harnesses that started but never finished (timeout)
    for th, h in cur.items():
        if h not in results:
            txt = '\n'.join(blocks.get(th, []))
            results[h] = {'status': 'TIMEOUT' if 'timed out' in txt.lower() else 'UNKNOWN', 'failed_checks': [], 'time_s': None, 'raw': txt[-3000:]}
    return results


def run_group(scratch, harnesses, flags, jobs, log_path, overall_timeout):
    cmd = ['cargo', 'kani'] + FLAG_GROUPS[flags] + ['--output-format=terse', '-j', str(max(2, jobs))]
    ht = max(h.timeout for h in harnesses)
    cmd += ['--harness-timeout', f'{ht}s', '--exact'] if False else ['--harness-timeout', f'{ht}s']
    for h in harnesses:
        cmd += ['--harness', h.name]
    env = dict(os.environ)
    env['CARGO_NET_OFFLINE'] = 'true'
    env.pop('RUSTUP_TOOLCHAIN', None)
    t0 = time.time()
    try:
        p = subprocess.run(cmd, cwd=scratch, capture_output=True, text=True, timeout=overall_timeout, env=env)
        out = p.stdout + '\n' + p.stderr
        rc = p.returncode
    except subprocess.TimeoutExpired as e:
        out = (e.stdout or b'').decode('utf8', 'replace') if isinstance(e.stdout, bytes) else (e.stdout or '')
        out += '\n[overall timeout]'
        rc = -9
    with open(log_path, 'a') as f:
        f.write('$ ' + ' '.join(cmd) + '\n' + out + '\n')
    return out, rc, time.time() - t0, ' '.join(cmd)


def classify(h: Harness, res):
    """-> verdict in {'ok','refuted','undecided'} plus reason"""
    if res is None:
        return 'undecided', 'harness did not run (compile error or filtered out)'
    st = res['status']
    raw = res.get('raw', '')
    if 'CBMC timed out' in raw or 'timed out' in raw.lower() and st != 'SUCCESSFUL':
        return 'undecided', 'solver timeout'
    if 'CBMC failed' in raw and not res['failed_checks']:
        return 'undecided', 'CBMC failed without a verdict (out of memory or internal error)'
    if st == 'SUCCESSFUL':
        return 'ok', ''
    if st == 'FAILED':
        descs = [f['desc'] for f in res['failed_checks']]
        real = [d for d in descs if not d.startswith('unwinding assertion')]
        unsup = [d for d in real if 'not currently supported' in d or 'unsupported' in d.lower()]
        if not descs:
            return 'undecided', 'FAILED without failed checks: ' + raw[-300:]
        if not real:
            if h.loops_unreached:
                return 'refuted', 'a loop the obligation says is never entered was entered (beyond the unwind bound): ' + '; '.join(descs)
            return 'undecided', 'unwinding bound too small: ' + '; '.join(descs)
        if unsup and len(unsup) == len(real):
            return 'undecided', 'unsupported construct reached: ' + '; '.join(unsup)
        return 'refuted', '; '.join(real)
    return 'undecided', st


def playback(scratch, h: Harness, flags, log_path):
    """Re-run failing harness with concrete playback, then execute the generated
    unit test natively.  Returns dict with test source, values and native verdict."""
    env = dict(os.environ)
    env['CARGO_NET_OFFLINE'] = 'true'
    env.pop('RUSTUP_TOOLCHAIN', None)
    cmd = ['cargo', 'kani'] + FLAG_GROUPS[flags] + ['-Z', 'concrete-playback', '--concrete-playback=print',
                                                  '--output-format=terse', '--harness', h.name,
                                                  '--harness-timeout', f'{h.timeout}s']
    info = {'cmd': ' '.join(cmd), 'test_src': None, 'native': 'not-run'}
    try:
        p = subprocess.run(cmd, cwd=scratch, capture_output=True, text=True, timeout=h.timeout + 300, env=env)
    except subprocess.TimeoutExpired:
        info['native'] = 'playback-generation-timeout'
        return info
    out = p.stdout + p.stderr
    with open(log_path, 'a') as f:
        f.write('$ ' + ' '.join(cmd) + '\n' + out + '\n')
    m = re.search(r'```\n(.*?)```', out, flags=re.S)
    if not m:
        info['native'] = 'no-concrete-values'
        return info
    test_src = m.group(1)
    info['test_src'] = test_src
    tn = re.search(r'fn (kani_concrete_playback_\w+)', test_src)
    info['test_name'] = tn.group(1) if tn else None
    info['values'] = re.findall(r'vec!\[([0-9, ]*)\]', test_src)
    return info


def native_playback(repo, kc_paths, kc_name, test_src, test_name, workdir, log_path):
    """Build the harness natively against `repo` with the saved playback test
    inserted and run it.  Returns 'fails-natively' | 'passes-natively' | 'error'."""
    scratch, _ = stage(repo, kc_paths, workdir, extra_tests={kc_name: test_src})
    env = dict(os.environ)
    env['CARGO_NET_OFFLINE'] = 'true'
    env.pop('RUSTUP_TOOLCHAIN', None)
    cmd = ['cargo', 'kani', 'playback', '-Z', 'concrete-playback', '--', test_name]
    try:
        p = subprocess.run(cmd, cwd=scratch, capture_output=True, text=True, timeout=900, env=env)
    except subprocess.TimeoutExpired:
        return 'error', 'timeout'
    out = p.stdout + p.stderr
    with open(log_path, 'a') as f:
        f.write('$ ' + ' '.join(cmd) + '\n' + out[-6000:] + '\n')
    if re.search(r'test result: FAILED', out):
        return 'fails-natively', out[-1500:]
    if re.search(r'test result: ok\. 1 passed', out):
        return 'passes-natively', out[-500:]
    return 'error', out[-1500:]
