"""Per-property configuration of the check runner: which units decide which
property, the claimed level, and what stays undecided (mirrors DESIGN.md §5)."""

COMMON_TRUST = [
    'Verus 0.2026.09.13 (VIR/AIR + bundled Z3) and Kani 0.68 / CBMC 6.11 / CaDiCaL, and rustc for both',
    'tools/extract.py + tools/verus_stage.py: item text is copied from /repo; rewrite rules that fired are listed in coverage.extraction_rules_fired',
]

PROPS = {}

PROPS['C13'] = dict(
    category='proof',
    technique='Verus contracts (requires/ensures + lemmas) on the extracted real functions, unbounded; Kani full-domain lemma for the total_cmp key; bounded Kani twin for counterexamples',
    level_text=('proved (Verus, unbounded in collection length and over all f64 times) for the four lookups, the four insert-or-replace '
                'functions, the three redundancy checks and ControlPoints::add, plus client lemmas giving the statement for every add '
                'sequence; proved (Kani, full f64 x f64) that the ordering key agrees with IEEE order except (-0,+0) = known finding D7; '
                'the four Kani twins are bounded stand-ins used only to obtain counterexamples'),
    level_note=('assumed: std specs in contracts/prelude.vc (binary_search_by, total_cmp as an order embedding, Option/Result combinators), '
                'vstd Vec specs; is_redundant/Default abstracted here and decided under C12; times not NaN'),
    verus=[dict(unit='c13', tier='quick')],
    kani=['c13.kc'],
    kani_functions=['std f64::total_cmp (relation to IEEE order)',
                    'src/section/timing_points/decode.rs :: impl ControlPoint<ControlPoints> for DifficultyPoint :: fn add (bounded twin)',
                    'src/section/timing_points/decode.rs :: impl ControlPoints :: fn difficulty_point_at (bounded twin)'],
    explanation=('Verus proves, for every collection length and every f64 time, on the function bodies extracted from '
                 'src/section/timing_points/decode.rs: the four lookups return the latest point not after the probe time '
                 '(first point / None fallbacks as stated), the four insert-or-replace functions keep each list strictly '
                 'increasing under the total_cmp key and change nothing else, the three redundancy checks compare against '
                 'the active (or default) point, and ControlPoints::add composes them; client lemmas derive the statement '
                 'for every sequence of adds. Kani proves over the full f64 x f64 domain that the total_cmp key agrees with '
                 'IEEE order except for (-0.0,+0.0) (known finding D7) and runs a bounded twin for counterexamples.'),
    trusted_base=COMMON_TRUST + [
        'redundancy tests DifficultyPoint/EffectPoint/SamplePoint::is_redundant and the Default impls are abstracted (external_body, uninterpreted result) in this unit; their numeric contracts are obligations of C12',
        'TimeSignature payload and SampleBank are opaque in this unit (never inspected by the verified functions)',
    ],
    assumptions=['times are not NaN (the parsers reject NaN times; the public add API does not)',
                 'Vec/slice operations behave as specified by vstd'],
    not_decided=['redundancy relative to points inserted LATER (an insert before an equal-valued point makes the later one repeat it; lazer behaves the same)'],
)


PROPS['C12'] = dict(
    category='other',
    technique='Kani full-domain loop-free contracts on the constructors / redundancy tests; Verus contracts on the pending-group state machine; Kani text-template harness for the line parser (bounded)',
    level_text='constructors, clamps, flag codec and redundancy tests proved (Kani, every bit pattern of every argument); pending-group state machine proved (Verus, unbounded); the line parser is a bounded stand-in over listed text templates with nondeterministic numeric results; bounded twin of flush_pending_points on the real function (any subset of pending slots, empty collection)',
    level_note='assumed: str::parse / dec2flt (digit strings to numbers) is replaced by a nondeterministic value constrained by the proved parse_with_limits contract; text shapes outside the templates are not decided; ordering of the result lists is C13',
    verus=[dict(unit='c12', tier='quick')],
    kani=['support.kc', 'c12_points.kc', 'tp_lines.kc', 'c13.kc'],
    only_prefix=['c12_', 'tp_line_', 'c13_twin_redundant', 'c13_twin_insert', 'c13_twin_timing_insert', 'c13_twin_effect_insert', 'c13_twin_sample_insert'],
    kani_functions=['src/section/timing_points/control_points/timing.rs :: TimingPoint::new, TimeSignature::new, Default',
                    'src/section/timing_points/control_points/difficulty.rs :: DifficultyPoint::new, is_redundant, Default',
                    'src/section/timing_points/control_points/effect.rs :: EffectPoint::new, is_redundant, Default',
                    'src/section/timing_points/control_points/sample.rs :: SamplePoint::new, is_redundant, Default',
                    'src/section/timing_points/effect_flags.rs :: EffectFlags::has_flag, From<i32>'],
    explanation='see level_text; per-obligation statements are in coverage.samples[].states',
    trusted_base=COMMON_TRUST,
    assumptions=[],
    not_decided=['sequences of lines end-to-end against an independent model (composition of the per-function contracts is the contract-level argument)'],
)

_CURVE_TRUST = COMMON_TRUST + [
    'Pos::length (f64 sqrt) is replaced in the curve harnesses: by a deterministic function of its argument where purity is checked, by "any finite value >= 0, 0 for the zero vector" where length bookkeeping is checked; the value of the Euclidean norm itself is not verified',
]

PROPS['C16'] = dict(
    category='other',
    technique='Verus contract on the extracted calculate_length with the float computations abstracted to uninterpreted functions (which value ends up as the total distance, shape of path / lengths: every path length); Kani harnesses on the real calculate_length with a contract-style stand-in for Pos::length for the numeric facts (bounded in the number of path vertices)',
    level_text='proved (Verus, paths of every length): lengths start at 0 and are never empty; path.len() <= lengths.len() on every exit (the invariant the accessors need), both indexed accesses in range; the path is only truncated, never to nothing; without a requested length one length per vertex and the total is the natural length; with a requested length L the total is EXACTLY L (for L > 0), except: L within EPSILON of the natural length or the stable quirk (last two points equal and L longer) -> natural length kept, single point -> one length; Catmull simplification (unit cat, Catmull polylines of every length, idealised float + and -): surplus_after + |kept polyline| == surplus_before + |full polyline|, the kept polyline starts and ends where the full one does, earlier path vertices stay, no other arm or mode touches the surplus, `sub_path[i - 1]` in range. bounded stand-in: calculate_length on unadjusted paths of 0..3 vertices (4 in the thorough tier), every finite f32 coordinate and every finite requested length > 0: total distance exactly L with the two stated exceptions, lengths start at 0 / never decrease / stay finite, truncation keeps path.len() <= lengths.len(); segment join de-duplication of calculate_path on listed linear lists (untyped head; two typed segments): the shared vertex appears once, nothing else is removed',
    level_note='assumed: Euclidean length is finite, >= 0 and 0 for identical points (its numeric value and the geometry of the natural curve are C17, not applicable); the Catmull conservation law (unit cat) is proved over IDEALISED float arithmetic (+ and - exact on the reals, admitted axioms listed in trusted_base) -- float rounding of the surplus is not decided; numeric facts on longer paths not decided',
    verus=[dict(unit='len', tier='quick'), dict(unit='bez', tier='quick'), dict(unit='cat', tier='quick')], kani=['curve.kc'],
    only_prefix=['c16_', 'c18_slider_path_cache'],
    kani_functions=['src/section/hit_objects/slider/curve.rs :: fn calculate_length'],
    explanation='see level_text; per-obligation statements in coverage.samples[].states',
    trusted_base=_CURVE_TRUST, assumptions=['requested length finite and > 0 (L <= 0 and non-finite L are outside the statement)', 'unit cat: machine arithmetic treated as mathematical -- f64 `+` and `-` are total and exact on the reals (five admitted axioms, listed in trusted_base); distances are an uninterpreted function of the two points'],
    not_decided=['approximate_linear appends exactly its points (it is a stand-in in the Verus units; seed C16-linear-segments-deduplicated is missed)', 'numeric facts (never decrease, finite) on paths longer than the bound', 'float rounding in the Catmull surplus (the conservation law is proved over idealised arithmetic)', 'the cut point is interpolated on the segment it falls in (value of the re-projected end vertex: float products)'],
)

PROPS['C18'] = dict(
    category='other',
    technique='Verus functional contract on the in-place de Casteljau subdivision (what it writes is a function of the control points alone, whatever the shared scratch buffers held); Kani two-history harnesses on the real Curve / BorrowedCurve / SliderPath code: compute A then B on shared buffers and compare bit-for-bit with B on fresh buffers; cache wiring proved loop-free',
    level_text='proved (Verus, every number of control points, every previous content of the three scratch buffers): after bezier_subdivide / bezier_approximate every entry a caller reads (l[m], r[m], m < points.len()) equals the de Casteljau triangle value tri(points, ..) -- a function of the control points only (float midpoint uninterpreted); calculate_path clears path and vertices before use and the four scratch vectors keep equal length. bounded stand-in for buffer independence (histories of two computations over single LINEAR segments, empty list included; multi-segment lists in the thorough tier) over all finite f32 coordinates; SliderPath cache fill / invalidation proved (Kani, loop-free, every requested length)',
    level_note='assumed: Pos::length is a deterministic function of its argument; Bezier / Catmull / circular-arc approximators are not exercised by the histories (float-heavy, out of CBMC reach)',
    verus=[dict(unit='bez', tier='quick'), dict(unit='cat', tier='quick')], kani=['curve.kc'],
    only_prefix=['c18_'],
    kani_functions=['src/section/hit_objects/slider/curve.rs :: fn calculate_path', 'src/section/hit_objects/slider/curve.rs :: fn calculate_length',
                    'src/section/hit_objects/slider/curve.rs :: Curve::new / BorrowedCurve::new', 'src/section/hit_objects/slider/path.rs :: impl SliderPath (curve, curve_with_bufs, borrowed_curve, control_points_mut, expected_dist_mut, clear_curve)'],
    explanation='see level_text; per-obligation statements in coverage.samples[].states',
    trusted_base=_CURVE_TRUST, assumptions=[],
    not_decided=['histories longer than two computations', 'the Catmull arm leaves the Bezier scratch buffers alone: stated on the real arm by unit cat (proved on the current tree), but an edit there easily leaves the Verus subset and CBMC does not finish the arm -- such a change is reported as undecided, not as a violation (seed C18-catmull-pass-borrows-bezier-scratch-buffer)', 'the adaptive subdivision stack of approximate_bspline as a whole (its children are proved to be functions of the parent only), Catmull / circular-arc kinds'],
)

PROPS['C19'] = dict(
    category='other',
    technique='Kani contracts on the real accessor functions: loop-free full-domain harness for the progress clamp, bounded harnesses (curve size) for index search and interpolation',
    level_text='interpolate_vertices proved (Verus, paths and length lists of EVERY length, every index and distance: no out-of-bounds access under path.len() <= lengths.len() -- an invariant calculate_length is proved to establish for paths of every length (unit len); index 0 -> first vertex, past the end -> last vertex, near-equal neighbouring lengths -> earlier vertex, empty path -> origin). progress_to_dist proved (Kani, every f64 progress and distance: <= 0 gives 0 x dist, >= 1 gives dist, clamp before product); interpolate_vertices / idx_of_dist / position_at(progress <= 0) bounded stand-ins on curves of <= 3-4 vertices over every f64 value and every usize index',
    level_note='not decided (and deliberately not asserted): the 1-Lipschitz claim, position at progress 1 is the last point, and position at a vertex length is that vertex hold only up to f32 rounding of p0 + (p1 - p0) * w',
    verus=[dict(unit='c19', tier='quick'), dict(unit='len', tier='quick')], kani=['curve.kc'],
    only_prefix=['c19_'],
    kani_functions=['src/section/hit_objects/slider/curve.rs :: fn progress_to_dist', 'src/section/hit_objects/slider/curve.rs :: fn dist',
                    'src/section/hit_objects/slider/curve.rs :: fn idx_of_dist', 'src/section/hit_objects/slider/curve.rs :: fn interpolate_vertices',
                    'src/section/hit_objects/slider/curve.rs :: fn position_at'],
    explanation='see level_text; per-obligation statements in coverage.samples[].states',
    trusted_base=COMMON_TRUST, assumptions=[],
    not_decided=['Lipschitz bound between two progress values', 'exactness at progress 1 and at vertex lengths (float rounding)'],
)

PROPS['C06'] = dict(
    category='other',
    technique='Kani frame contracts (Err => state equals old state) on the real section line parsers, run on concrete text templates with every numeric conversion replaced by "any value or an error"',
    level_text='bounded stand-in: for each listed text template the harness covers every value of every numeric field and a rejection at every conversion point after every amount of partial progress; on Err the observable parser state (hit objects, last-object marker, state-held path buffer, pending control-point slots and group time) equals the state before the line; proved (Verus unit enc, lines of every length): the text of a line handed to the parsers never contains text of an earlier line -- the shared lossy-decoding buffer is cleared before it is filled',
    level_note='assumed: std text->number conversion (replaced by nondeterministic results), memchr_aligned == naive search; text shapes outside the templates are not decided; flush_pending_points is used through its Verus-proved contract',
    verus=[dict(unit='enc', tier='quick')], kani=['support.kc', 'ho_lines.kc', 'tp_lines.kc', 'c11_sections.kc'],
    only_prefix=['ho_path_', 'ho_line_', 'ho_slider_line', 'tp_line_', 'c11_difficulty_', 'c11_general_', 'c11_event_', 'c11_color_', 'c11_editor_', 'c11_metadata_'],
    kani_functions=['src/section/hit_objects/decode.rs :: impl HitObjectsState :: fn convert_path_str / fn convert_points / fn point_split',
                    'src/section/hit_objects/decode.rs :: impl DecodeBeatmap for HitObjects :: fn parse_hit_objects',
                    'src/section/timing_points/decode.rs :: impl DecodeBeatmap for TimingPoints :: fn parse_timing_points'],
    explanation='see level_text; per-obligation statements and template lists in coverage.samples[].states / coverage.bounded_checks',
    trusted_base=COMMON_TRUST + ['contracts/support.kc: nondeterministic stand-ins for <f64|f32|i32|u8 as FromStr>::from_str; naive_memchr for core::slice::memchr::memchr_aligned',
                                 'SampleBankInfo::convert_sound_type replaced by a marker function in line harnesses (the real one is proved by Verus unit hs)'],
    assumptions=[], not_decided=['text shapes outside the templates', 'whole-file "as if the line were absent" (needs the driver; the per-line frame contract is the contract-level argument)'],
)

PROPS['C07'] = dict(
    category='other',
    technique='Kani loop-free wiring contracts: each delegating parse_* function is verified against a recording stand-in for its callee (callers are checked against callee interfaces, not bodies); state->value conversions verified field by field over all scalar values',
    level_text='proved (Kani, loop-free): all 13 delegation steps Beatmap -> HitObjects -> TimingPoints -> General (and -> Editor/Metadata/Colors/Difficulty/Events) call exactly the right inner parser once on exactly the right sub-state with the same line and return its Ok/Err; ignored sections return Ok(()); State->value conversions copy the format version and every scalar field bit-exactly; bounded (template 1,2,3,1,0, any pending timing group): a hit-object line, accepted or rejected, leaves the timing sub-state alone (no flush, no change, nothing added) -- the TimingPoints decoder ignores those lines',
    level_note='agreement of the nine decoders on every input follows because DecodeBeatmap::decode is one shared default method (no impl overrides decode or should_skip_line: scanned on every run); moved collections: breaks (order preserved) and the background file are checked on a two-break state (bounded), the others only for the empty case; the line is an arbitrary fixed text since the wiring does not inspect it',
    verus=[], kani=['support.kc', 'c07.kc', 'c07_tp.kc', 'tp_lines.kc'],
    only_prefix=['c07_'],
    kani_functions=['src/beatmap.rs :: impl DecodeBeatmap for Beatmap :: fn parse_* (11)', 'src/section/hit_objects/decode.rs :: impl DecodeBeatmap for HitObjects :: fn parse_* (11)',
                    'src/section/timing_points/decode.rs :: impl DecodeBeatmap for TimingPoints :: fn parse_* (11)', 'src/beatmap.rs :: impl From<BeatmapState> for Beatmap',
                    'src/section/hit_objects/decode.rs :: impl From<HitObjectsState> for HitObjects (scalar fields)', 'src/section/timing_points/decode.rs :: impl From<TimingPointsState> for TimingPoints', 'src/section/timing_points/decode.rs :: impl From<TimingPoints> for Beatmap'],
    explanation='see level_text; per-obligation statements in coverage.samples[].states',
    trusted_base=COMMON_TRUST, assumptions=['no impl in the crate overrides DecodeBeatmap::decode / should_skip_line (checked syntactically by scan)'],
    not_decided=['string / vector fields of the conversions for non-empty contents', 'Metadata does not strip comments while the other sections do (C11)'],
    scan_no_override=True,
)

PROPS['C15'] = dict(
    category='other',
    technique='Kani contracts on the real map-level helpers: loop-free full-domain harnesses (sample defaults, beat-length scaling) and a bounded harness for break post-processing',
    level_text='proved (Verus, every number of objects and breaks): From<HitObjectsState> sorts the objects by start time (f64::total_cmp order) BEFORE the break sweep -- post_process_breaks requires a chronologically sorted list and its only caller proves it from the (assumed) contract of slice::sort_by; post_process_breaks is panic-free and count-preserving (its combo rule itself is only a bounded Kani stand-in). SamplePoint::apply proved (Kani, every i32 / bank value: defaults taken only when unspecified, file samples normalised, unsafe suffix guard); get_precision_adjusted_beat_len: domain facts proved for every f64 pair, the clamp(100/sv, 10, M)/100 scaling checked on listed values (bounded); post_process_breaks bounded stand-in (3 objects x 2 breaks, every finite time)',
    level_note='not decided: shift invariance (a 2-safety property over two runs of the whole decoder through dec2flt), that the sweep leaves the order intact (it only writes new_combo flags: iter_mut element frames are beyond the installed vstd), the velocity / duration formulas inside From<HitObjectsState> (need curve computation), node sample lookup times',
    verus=[dict(unit='c15', tier='quick')], kani=['c15.kc', 'c15_sample.kc'],
    kani_functions=['src/section/hit_objects/decode.rs :: fn get_precision_adjusted_beat_len', 'src/section/hit_objects/decode.rs :: impl HitObjectsState :: fn post_process_breaks',
                    'src/section/timing_points/control_points/sample.rs :: impl SamplePoint :: fn apply'],
    explanation='see level_text; per-obligation statements in coverage.samples[].states',
    trusted_base=COMMON_TRUST, assumptions=['breaks ordered by end time when post_process_breaks runs', 'slice::sort_by as documented by std: a permutation, ordered by the comparator (stability assumed, not used)'],
    not_decided=['shift invariance', 'From<HitObjectsState> for HitObjects after the sweep (velocity, duration, 5 ms lookup leniency: cut from the unit)'],
)

PROPS['C11'] = dict(
    category='other',
    technique='Kani contracts on the record parsers: key/value split and comment stripping on listed text templates against an independent reference; value conversions on templates with every numeric field replaced by "any value or an error"; key tables enumerated exhaustively',
    level_text='bounded stand-in for the text layer (listed templates for KeyValue::parse, trim_comment, each section record kind), with every numeric value / rejection covered per template; section key tables proved inverse (from_str(as_str(k)) == k) for every variant; numeric limit checks proved (Kani, full domain) under C01; proved (Kani, every f64 / f32 / i32 value, loop-free): the numeric limits of ParseNumber -- a value is rejected iff it lies outside [-limit, limit], the limits themselves are accepted (pn_* obligations, shared with C01)',
    level_note='assumed: std text->number conversion replaced by nondeterministic results; text shapes outside the templates not decided; "last valid occurrence wins" follows from the per-record contracts (each handler assigns its field or leaves the state unchanged) and is not run as a sequence',
    verus=[], kani=['support.kc', 'c11_kv.kc', 'c11_sections.kc', 'parse_number.kc'],
    kani_functions=['src/util/key_value.rs :: impl KeyValue :: fn parse', 'src/util/str_ext.rs :: impl StrExt for str :: fn trim_comment',
                    'src/section/difficulty.rs :: impl DecodeBeatmap for Difficulty :: fn parse_difficulty', 'src/section/general/decode.rs :: impl DecodeBeatmap for General :: fn parse_general',
                    'src/section/events/decode.rs :: impl DecodeBeatmap for Events :: fn parse_events (break records)', 'src/section/colors/decode.rs :: impl DecodeBeatmap for Colors :: fn parse_colors', 'src/section/colors/mod.rs :: impl FromStr for Color'],
    explanation='see level_text; per-obligation statements in coverage.samples[].states',
    trusted_base=COMMON_TRUST + ['contracts/support.kc stand-ins for std FromStr of f64/f32/i32/u8'], assumptions=[],
    not_decided=['digit strings -> numbers', 'record sequences end-to-end'],
)

PROPS['C20'] = dict(
    category='other',
    technique='Verus contracts on the extracted iterator (new / next / generate_ticks) for the stream STRUCTURE, unbounded in span and tick counts, floats uninterpreted; Kani contracts for the numeric closed forms (full domain where loop-free, listed values otherwise)',
    level_text='proved (Verus, every span count >= 1, every tick count, every float parameter): new() leaves the reusable buffer empty whatever it held; generate_ticks pushes, for one span, ticks then exactly one Repeat iff the span is not the last, all tagged with that span, in the order next() pops them; next() steps Head -> ticks/repeats of spans in increasing order -> LastTick -> Tail -> Done(None forever), never a Repeat for the last span, generating a span only when the buffer is drained. proved (Kani, every f64 parameter): SliderEventsIter::new empties the reusable buffer whatever it held, clamps the tick distance into [0, len], caps len at 100000; new_repeat_point closed form. Bounded stand-ins (listed parameter values): Head / LastTick / Tail closed forms incl. mirrored progress on even span counts, Done stays Done, zero tick distance yields every repeat and no tick for 1..4 spans with a stale buffer. Tick TIMES and distances (chronological order within a span, mirroring, suppression near the end) are float facts: only the thorough-tier Kani streams address them',
    level_note='Verus unit: float arithmetic abstracted (R6), termination of the tick loop and of next()\'s loop not proved (exec_allows_no_decreases_clause), new_repeat_point used through its Kani-proved contract. assumed: total distance >= 0 (f64::clamp(0, len) panics otherwise; callers pass Curve::dist()); termination of the tick loop for tiny positive tick distances is not decided; callers in encode.rs deriving the parameters are not covered',
    verus=[dict(unit='c20', tier='quick')], kani=['c20.kc'],
    kani_functions=['src/section/hit_objects/slider/event.rs :: impl SliderEventsIter :: fn new', 'src/section/hit_objects/slider/event.rs :: impl Iterator for SliderEventsIter :: fn next',
                    'src/section/hit_objects/slider/event.rs :: fn generate_ticks', 'src/section/hit_objects/slider/event.rs :: fn new_repeat_point'],
    explanation='see level_text; per-obligation statements in coverage.samples[].states',
    trusted_base=COMMON_TRUST, assumptions=['total_dist >= 0 or NaN-free as produced by Curve::dist()'],
    not_decided=['chronological ORDER of the ticks within one span (the Verus contract on generate_ticks pins kinds, tags, repeat position and count only; seed C20-final-forward-span-ticks-not-reversed is missed)', 'tick placement for arbitrary real parameters', 'slider_events / juicestream_events parameter derivation in encode.rs', 'termination'],
)

PROPS['C14'] = dict(
    category='other',
    technique='Verus contract on the extracted convert_sound_type (unbounded over all inputs); Kani full-domain contracts for the sample constructor and flag codecs; Kani text-template harnesses for the line grammar and the path-string rules',
    level_text='proved (Verus): SampleBankInfo::convert_sound_type yields [normal-or-file] then finish, whistle, clap in that order exactly when flagged, with the documented banks / index / volume / layering, for every sound byte and bank info. proved (Kani): HitSampleInfo::new suffix guard, sound / bank number codecs. Bounded stand-ins (listed templates, every numeric value and rejection point): kind by flag precedence, position truncation and limits, combo rules, forced new combo, hold end time, slider/spinner field requirements, path-string conversion (first point at origin and typed, no residue, split buffer emptied)',
    level_note='assumed: std text->number conversion replaced by token-deterministic nondeterministic results; in line harnesses convert_sound_type is replaced by a marker (the real one is the Verus obligation); text shapes outside the templates, PathType letters beyond B/L/P in templates, collinear-perfect-curve downgrade and duplicate-point splitting values are not decided',
    verus=[dict(unit='hs', tier='quick')],
    kani=['support.kc', 'hit_samples.kc', 'ho_lines.kc'],
    only_prefix=['hs_', 'ho_line_', 'ho_path_', 'ho_points_', 'ho_slider_'],  # ho_slider_line_fields is quick; the two path-bearing slider templates are optional thorough
    kani_functions=['src/section/hit_objects/hit_samples.rs :: impl HitSampleInfo :: fn new', 'src/section/hit_objects/hit_samples.rs :: impl From<&[HitSampleInfo]> for HitSoundType',
                    'src/section/hit_objects/hit_samples.rs :: impl TryFrom<i32> for SampleBank', 'src/section/hit_objects/decode.rs :: impl DecodeBeatmap for HitObjects :: fn parse_hit_objects',
                    'src/section/hit_objects/decode.rs :: impl HitObjectsState :: fn convert_path_str / convert_points / point_split'],
    explanation='see level_text; per-obligation statements in coverage.samples[].states',
    trusted_base=COMMON_TRUST + ['contracts/support.kc stand-ins', 'hs unit: HitSampleInfo::new is external_body with the contract proved by Kani obligation hs_hit_sample_info_new'],
    assumptions=[], not_decided=['text outside the templates', 'digit strings -> numbers', 'read_custom_sample_banks field rules'],
)

_READER_TRUST = COMMON_TRUST + [
    'ScriptedReader (harness-defined BufRead): hands out every chunk schedule within the stated content bound',
    'std read_until / read_exact / Cursor are executed as compiled by Kani (their own retry-on-Interrupted and chunk independence are part of what the bounded harnesses explore)',
    'reader harnesses run with --no-default-checks (assertions and unwinding assertions only): io::Error bit-packed representation makes CBMC pointer checks explode',
]

PROPS['C08'] = dict(
    category='other',
    technique='Kani contract on the real Decoder::new / read_bom over a harness-defined BufRead that hands out every chunk schedule (bounded content length); known finding D5 keyed by the first chunk length',
    level_text='bounded stand-in: content of 0..4 bytes (every value), every chunk schedule whose first chunk is empty or >= 3 bytes, one Interrupted result: the detected encoding is from_bom(content) and exactly the BOM bytes are consumed. Line assembly (read_line) independence from chunking: bounded harnesses of C10 explore every schedule for <= 4 bytes',
    level_note='known finding D5: a first chunk of 1 or 2 bytes is consumed and lost (reported on a KNOWN-FINDING line, witness harness c08_read_bom_short_first_chunk). from_path / File and longer streams are not decided',
    verus=[], kani=['decoder.kc'],
    only_prefix=['c08_', 'c10_read_line_utf16le', 'c10_read_line_utf8'],
    kani_functions=['src/reader/decoder.rs :: impl Decoder :: fn new', 'src/reader/decoder.rs :: impl Decoder :: fn read_bom'],
    explanation='see level_text', trusted_base=_READER_TRUST, assumptions=[], not_decided=['from_path / BufReader<File>', 'streams longer than the bound'],
)

PROPS['C09'] = dict(
    category='other',
    technique='Kani contracts on the real Decoder::new and read_line over a fault-injecting BufRead (bounded content, fault at any of the first calls)',
    level_text='driver (Verus unit drv, files of every length): a read error met by parse_version / parse_first_section / parse_section is never turned into a result -- the only Ok outcomes are those of the reference driver over the lines actually delivered, so swallowing an Err as end-of-input fails the proof. writer side: an Ok result of Beatmap::encode is the result of its final writer.flush() (unit kv), so buffered data and a failing flush cannot go unnoticed; (syntactic obligation, every call in src/encode.rs): all output goes through write! / writeln! / write_all / flush -- never a bare Write::write -- and every Result is propagated with `?` or returned, so a failing or exhausted writer makes encode return an error; in the units kv / rec / c04 (C04) the same propagation is part of the proofs (an emission whose Result is dropped leaves the protocol state unknown). bounded stand-in, reader side: a non-transient error injected at any of the first fill_buf calls is returned by Decoder::new / read_line with its kind (never Ok, never a panic); Interrupted during BOM sniffing is retried',
    level_note='writer faults are not executed (encode needs core::fmt); driver-level propagation (`?` in parse_version / parse_first_section / parse_section) is syntactic and only exercised in the thorough-tier driver harnesses',
    verus=[dict(unit='drv', tier='quick'), dict(unit='kv', tier='quick')], kani=['decoder.kc'],
    only_prefix=['c09_', 'c10_read_line_utf16le'],
    kani_functions=['src/reader/decoder.rs :: impl Decoder :: fn new', 'src/reader/decoder.rs :: impl Decoder :: fn read_bom', 'src/reader/decoder.rs :: impl Decoder :: fn read_line'],
    explanation='see level_text', trusted_base=_READER_TRUST + ['std: write! / writeln! / write_all complete the write or return an error (WriteZero for a zero-length write, Interrupted retried)'],
    assumptions=[], not_decided=['error kinds other than the injected representative', 'writer side beyond the syntactic obligation (no fault-injecting execution of encode: core::fmt is outside CBMC reach)'],
    scan_writer_calls=True,
)

PROPS['C10'] = dict(
    category='other',
    technique='Kani contracts on the unit-level codecs (BOM table and code-unit pairing proved loop-free over all bytes) and on read_line line splitting per encoding (bounded); known finding D6 keyed by a foreign 0x0A byte',
    level_text='proved (Verus, byte strings of every length): the lossy UTF-8 loop of Encoding::decode produces EXACTLY what lossy conversion is defined to produce -- the maximal valid prefix, one U+FFFD, then the conversion of what follows the invalid sequence (resuming right after its reported length; nothing further if the input ended inside it) -- in a buffer cleared first; it copies only validated prefixes, slices in range and terminates (functional correctness against the recursive definition, the from_utf8 report of std uninterpreted). proved (Kani, every byte value): BOM table (from_bom) and pairing of bytes into LE / BE code units with the odd tail dropped. Bounded stand-ins: read_line splits a UTF-8 stream at the first LF byte and a UTF-16LE stream after the first LF unit (<= 4 bytes, every schedule); UTF-16 / UTF-8 lossy decoding of single units (thorough tier: CBMC needs long runs for String building); bounded (every 4-byte line buffer, all three encodings): Decoder::curr_line hands the text decoder exactly the raw bytes of the line and trims only the decoded text',
    level_note='known finding D6: in UTF-16 input any 0x0A byte that belongs to another code unit (e.g. U+4E0A) splits the line (KNOWN-FINDING line, witness harness c10_read_line_utf16_foreign_0a). Equality of whole decoded maps across the four encodings is not decided',
    verus=[dict(unit='enc', tier='quick')], kani=['encoding.kc', 'u16_iter.kc', 'decoder.kc'],
    only_prefix=['enc_', 'u16_', 'c10_'],
    kani_functions=['src/reader/encoding.rs :: impl Encoding :: fn from_bom', 'src/reader/encoding.rs :: impl Encoding :: fn decode', 'src/reader/u16_iter.rs :: DoubleByteIterator / U16LeIterator / U16BeIterator :: fn next',
                    'src/reader/decoder.rs :: impl Decoder :: fn read_line'],
    explanation='see level_text', trusted_base=_READER_TRUST + ['Encoding::decode replaced by a marker in the line-splitting harnesses (its own obligations are enc_*)'], assumptions=[],
    not_decided=['whole-map equality across encodings', 'UTF-16BE line splitting (same code path as LE without the extra byte)'],
)

PROPS['C05'] = dict(
    category='other',
    technique='Verus contracts on the extracted driver (DecodeBeatmap::decode, parse_version, parse_first_section, parse_section) against a recursive reference driver over the line sequence, with a ghost log of parser calls; Kani contracts on the three string predicates the driver uses and on Decoder::curr_line',
    level_text='proved (Verus, files of every length, termination included): the sequence of (section parser, line) calls made by DecodeBeatmap::decode is exactly that of the reference driver of the property -- version taken from the first non-blank line if it carries the prefix, otherwise the latest version and that line itself may open a section; everything before the first recognised header skipped; every later line that is neither skipped (blank / comment) nor a recognised header handed to the parser OF THE MOST RECENT recognised header (the Section -> parse_* table is part of the contract); parser errors ignored; an unrecognised bracketed line goes to the current parser and neither opens nor closes a section; sections may repeat in any order. Bounded stand-ins (Kani) for the predicates the proof leaves uninterpreted: Section::try_from_line accepts exactly `[Name]` for the 11 names (every ASCII line up to 15 bytes); should_skip_line is true exactly for empty lines and lines whose first non-blank text is `//` (lines up to 5 bytes over a 5-letter alphabet); a line starting with `[` is never skipped (up to 15 bytes); version-line handling on 8 templates; Decoder::curr_line removes trailing whitespace only (every 3-byte ASCII line); line reading per C10',
    level_note='the reader is modelled by the sequence of lines read_line delivers (C08-C10); rule R11 turns the function items `Self::parse_x` / the fn-pointer parameter into tokens naming the function (Verus has no function pointers); code under #[cfg(feature = "tracing")] is removed (R12, feature off as in the pinned test command); the final `state.into()` conversion is C07',
    verus=[dict(unit='drv', tier='quick'), dict(unit='enc', tier='quick')], kani=['support.kc', 'c05.kc', 'decoder.kc', 'encoding.kc'],
    only_prefix=['c05_', 'enc_decode_utf16_ignores'],
    kani_functions=['src/section/mod.rs :: impl Section :: fn try_from_line', 'src/decode.rs :: trait DecodeBeatmap :: fn should_skip_line', 'src/format_version.rs :: fn try_version_from_line', 'src/reader/decoder.rs :: impl Decoder :: fn curr_line',
                    'src/decode.rs :: trait DecodeBeatmap :: fn decode / fn parse_version / fn parse_first_section / fn parse_section (recording-impl harnesses, thorough tier)'],
    explanation='see level_text',
    trusted_base=COMMON_TRUST + ['naive_memchr / naive_memrchr stand-ins for core::slice::memchr',
                                 'verus unit drv: Decoder modelled as the sequence of lines it delivers; call of a parser = one entry in a ghost log; header / skip / version predicates uninterpreted (bounded Kani obligations c05_*)',
                                 'R11: function items used as values -> tokens naming the function', 'R12: cfg(feature = "tracing") code removed'],
    assumptions=['a recognised header line is never a skipped line (bounded Kani obligation c05_header_never_skipped)', 'curr_line returns the line read last: decoding is a function of the line bytes whatever the scratch buffer held (unit enc: buffer cleared before the lossy loop; enc_decode_utf16_ignores_previous_buffer)'],
    not_decided=['the three string predicates beyond their bounds', 'non-UTF-8 encodings are C10'],
)

PROPS['C01'] = dict(
    category='other',
    technique='panic-freedom / unsafe-guard contracts on the mechanisms the property names: Kani loop-free full-domain harnesses where the function is loop-free, bounded harnesses otherwise',
    level_text='proved (Verus, every length): the lossy UTF-8 loop of Encoding::decode slices in range, calls the unsafe from_utf8_unchecked only on a prefix std validated (its safety condition is a Verus precondition) and terminates; interpolate_vertices never indexes outside its slices given path.len() <= lengths.len(), which calculate_length establishes on every exit for paths of every length (unit len, also: its own `path[end_idx]` / `path[prev_idx]` in range); the whole Bezier chain calculate_path -> calculate_subpath -> approximate_bezier -> extend_exact / approximate_bspline -> bezier_approximate / bezier_subdivide never slices or indexes outside the vertex list or the shared scratch buffers, for every number of control points and every earlier use of the buffers (data-structure invariant: the four scratch vectors have equal length; approximate_bspline requires capacity >= points.len(), which every caller must prove), `unreachable!()` in calculate_path is unreachable. proved (Kani, full domain): numeric limits (parse_with_limits for f64 / f32 / i32: accepted values lie within +-limit and are never NaN, no overflow panic), BOM table, code-unit pairing, the two unsafe NonZeroU32::new_unchecked guards (HitSampleInfo::new, SamplePoint::apply), SliderEventsIter::new. Bounded stand-ins: path-string conversion incl. the raw-pointer split buffer being empty on every exit, index safety of interpolate_vertices / idx_of_dist / calculate_length (path.len() <= lengths.len() invariant), line parsers on templates never panic for any numeric value',
    level_note='the universally quantified claim over byte strings is whole-program totality and is NOT decided; nor are termination of the adaptive Bezier subdivision and of the tick loop, the 1000-point arc cap, re-encoding, the tracing feature set',
    verus=[dict(unit='c19', tier='quick'), dict(unit='len', tier='quick'), dict(unit='bez', tier='quick'), dict(unit='cat', tier='quick'), dict(unit='enc', tier='quick')], kani=['support.kc', 'parse_number.kc', 'encoding.kc', 'u16_iter.kc', 'hit_samples.kc', 'c15_sample.kc', 'curve.kc', 'c20.kc', 'ho_lines.kc', 'c11_sections.kc'],
    only_prefix=['pn_', 'enc_from_bom', 'enc_decode', 'u16_', 'hs_hit_sample_info_new', 'c15_sample_point_apply', 'c16_calculate_length_2', 'c19_interpolate', 'c19_idx', 'c20_new_clears', 'ho_path_one', 'ho_path_trailing', 'ho_line_5', 'c11_event_video_non_ascii', 'c11_difficulty_slider_multiplier', 'c11_color_five'],
    kani_functions=['src/util/parse_number.rs :: impl ParseNumber for f64 / f32 / i32', 'src/reader/encoding.rs :: Encoding::from_bom', 'src/reader/u16_iter.rs :: iterators',
                    'src/section/hit_objects/hit_samples.rs :: HitSampleInfo::new (unsafe)', 'src/section/timing_points/control_points/sample.rs :: SamplePoint::apply (unsafe)',
                    'src/section/hit_objects/slider/curve.rs :: calculate_length / interpolate_vertices / idx_of_dist', 'src/section/hit_objects/slider/event.rs :: SliderEventsIter::new',
                    'src/section/hit_objects/decode.rs :: convert_path_str / convert_points / point_split (unsafe)', 'src/section/hit_objects/decode.rs :: parse_hit_objects'],
    explanation='see level_text', trusted_base=COMMON_TRUST + ['contracts/support.kc stand-ins for std FromStr'], assumptions=[],
    not_decided=['whole-input totality', 'termination of float-driven loops (adaptive subdivision, ticks)', 're-encoding yields valid UTF-8'],
)

PROPS['C04'] = dict(
    category='other',
    technique='Verus contracts on the extracted encoder functions with the writer replaced by a typed emission protocol (rule R10: every write!/writeln!/write_all becomes the sequence of typed emissions it performs; the line grammar and the key/value acceptance table are preconditions of the emission functions) and, for the slider path, by an emission log (rule R7) with a loop invariant over the `,` separators',
    level_text='proved (Verus, every map value): Beatmap::encode writes the format-version line first and then the eight section headers, once each, in canonical order, with the header texts Section::try_from_line recognises; every line written by encode_general / encode_editor / encode_metadata / encode_difficulty has the shape `Key: value` (bookmarks: `Key: v,v,..`) with a key of that section and a value whose rendered class (integer / 0..3 discriminant / float / text) the parser arm of that key accepts. every record line of encode_events (background, breaks), encode_colors (combo and named colours) and encode_timing_points (both kinds of line: two leading floats written by the loop + the six-field tail of output_control_point_at) has the comma-separated field shape parse_events / Color::from_str / parse_timing_points accept (field count, event-type discriminant, numeric classes); a dropped `?` on any of these writes fails the proof; every [HitObjects] line has the field shape the parser reads for the KIND whose bits its type word carries (circle: bank info; spinner: end time `,` bank info; hold: `end:bank info` in one field; slider: five path fields, then the bank info), the bank info being `n:a:idx:vol:[file]` (encode_hit_objects + get_sample_bank). proved (Verus, control-point lists of every length): the slider path part contains exactly one `,` separator and it is the last path token (decoder grammar `type (| point)* ,`)',
    level_note='known finding D8 (KNOWN-FINDING line, unit plen): the slider length field is the computed path distance when the decoded slider had no requested length, and that value is not bounded by the parser limit 131072. known finding D9 (KNOWN-FINDING line, unit stime): the time of a sample point collected from a hit object is the object\'s COMPUTED end time, which is not bounded by the parser limit i32::MAX (the call sites inside the osu! / Catch slider-event arms are CUT from that unit: not decided). other numeric ranges of written fields are not decided (rendered text is abstracted to the class of the argument type). rendered text (core::fmt) is abstracted to the class of the argument type; the acceptance table `accepts` is transcribed from the match arms of the four parse_* functions (parser side pinned per key by the c11_* Kani harnesses); the tail of add_path_data (length, node sounds, node banks: assumed to write its five fields) and the preamble of encode_timing_points that builds the groups are CUT from the units (line counts in evidence)',
    verus=[dict(unit='c04', tier='quick'), dict(unit='kv', tier='quick'), dict(unit='rec', tier='quick'), dict(unit='hol', tier='quick'), dict(unit='plen', tier='quick', finding='D8'), dict(unit='stime', tier='quick', finding='D9', finding_sites=['collect_sample(&mut collected_samples, &h.samples, end_time)'])], kani=[],
    kani_functions=[],
    explanation='see level_text',
    trusted_base=COMMON_TRUST + ['R7: writer -> emission log; write!/write_all -> emit(token)', 'R10: writer -> typed emission protocol; argument text abstracted to the class of its Rust type; `E as i32` -> as_i32(E)',
                                 'R6: position arithmetic / int-cast comparison / Option<PathType> inequality abstracted as uninterpreted functions',
                                 'section_keys! macro: Display and FromStr of the key enums both come from stringify!(variant)',
                                 'acceptance table `accepts` (contracts/kv.vc) transcribed from parse_general / parse_editor / parse_metadata / parse_difficulty', 'record acceptance `line_ok` (contracts/rec.vc) transcribed from parse_events / parse_colors + Color::from_str / parse_timing_points', 'hit-object line shapes per kind (contracts/hol.vc) transcribed from parse_hit_objects'],
    assumptions=['first control point is typed and the list is non-empty (established by the decoder: obligation ho_path_*)',
                 'numeric fields of a decoded map are finite and within the parser limits (C11), audio_lead_in is integral (set from an i32), text fields are single-line'],
    not_decided=['the tail of add_path_data (slider length / node sounds / node banks fields)', 'text rendering of numbers (core::fmt)', 'text values containing `//` in comment-trimming sections'],
)

NOT_APPLICABLE = {
    'C02': 'whole-text round trip through core::fmt float printing and dec2flt: no contract on one function links encode output to decode input, and neither verifier executes fmt/parse on symbolic values; the expressible codec-pair lemmas are decided under C11/C13/C14/C04',
    'C03': 'same as C02 (edited values travel through write! and str::parse); the first-colon rule it singles out is a contract on KeyValue::parse decided under C11',
    'C17': 'real-analysis (Hausdorff) bound over f32 code using sin_cos/atan2/acos/sqrt: Verus treats float results as uninterpreted, CBMC has no model of the transcendental functions and does not finish non-linear float inequalities of this size',
}
for _k in ['C01','C04','C05','C06','C07','C08','C09','C10','C11','C12','C14','C15','C16','C18','C19','C20']:
    if _k not in PROPS:
        NOT_APPLICABLE[_k] = 'check not built yet at this commit (planned in DESIGN.md §5); not claimed until its check exists'
