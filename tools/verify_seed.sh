#!/bin/bash
# usage: verify_seed.sh <worktree> <demo-test-name>
# confirms: (1) with the change the pinned suite passes, (2) the demo fails with the change, (3) the demo passes without it
wt=$1; demo=$2
cd $wt || exit 2
export CARGO_NET_OFFLINE=true
echo "-- suite with change:"
cargo test --offline --lib --test decode --test encode --test encodings 2>&1 | grep -E "^test result" | tr '\n' ' '; echo
cargo test --offline --doc 2>&1 | grep -E "^test result" | tr '\n' ' '; echo
echo "-- demo with change:"
cargo test --offline --test $demo 2>&1 | grep -E "^test result|^test .* (FAILED|ok)" | tr '\n' ' '; echo
git apply -R _seed/patch.diff
echo "-- demo without change:"
cargo test --offline --test $demo 2>&1 | grep -E "^test result" | tr '\n' ' '; echo
git apply _seed/patch.diff
git status --short | grep "^ M" | head -2
