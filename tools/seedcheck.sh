#!/bin/bash
# usage: seedcheck.sh <seeded-dir> <prop> [check args]   -- apply the seeded patch to /repo, run the check, undo
dir=$1; prop=$2; shift 2
cd /repo || exit 2
git diff --quiet || { echo "/repo is dirty"; exit 2; }
git apply /verif/$dir/patch.diff || { echo "patch does not apply"; exit 2; }
/verif/check $prop --no-evidence "$@" 2>&1 | grep -vE "^\s+\[(proved |bounded)\]"
rc=${PIPESTATUS[0]}
git -C /repo checkout -- .
echo "exit=$rc"
