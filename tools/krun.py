#!/usr/bin/env python3
"""dev helper: stage the given .kc files on a scratch copy and run selected harnesses.
usage: tools/krun.py [--repo DIR] [--timeout S] a.kc b.kc -- harness_substr ..."""
import sys, os, tempfile, shutil, time
sys.path.insert(0, os.path.dirname(os.path.abspath(__file__)))
import kani_stage
args = sys.argv[1:]
repo = '/repo'; tmo = 120; raw = False
if args[0] == '--raw': raw = True; args = args[1:]
if args[0] == '--repo': repo = args[1]; args = args[2:]
if args[0] == '--timeout': tmo = int(args[1]); args = args[2:]
i = args.index('--')
kcs = [os.path.join(os.path.dirname(os.path.dirname(os.path.abspath(__file__))), 'contracts', k) for k in args[:i]]
pats = args[i+1:]
wd = tempfile.mkdtemp(prefix='rosu-krun.', dir='/var/tmp')
try:
    scratch, hs = kani_stage.stage(repo, kcs, wd)
    sel = [h for h in hs if any(p in h.name for p in pats)]
    for h in sel: h.timeout = tmo
    groups = {}
    for h in sel: groups.setdefault(h.flags, []).append(h)
    for fl, hl in groups.items():
        out, rc, wall, cmd = kani_stage.run_group(scratch, hl, fl, 12, os.path.join(wd, 'log.txt'), tmo * len(hl) + 300)
        res = kani_stage.parse_output(out)
        if raw:
            i = out.find('VERIFICATION RESULT'); print(out[i:i+6000])
        for h in hl:
            r = next((v for k, v in res.items() if k.endswith('::' + h.name)), None)
            v, why = kani_stage.classify(h, r)
            print(f"{h.name:45s} {v:10s} {(r or {}).get('time_s')} {why[:300]}")
            for fc in (r or {}).get('failed_checks', []):
                print('      ', fc['desc'][:100], '@', fc['file'][-60:], fc['line'])
        if not res:
            print(out[-3000:])
finally:
    shutil.rmtree(wd, ignore_errors=True)
