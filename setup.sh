#!/bin/bash
# Offline setup: nothing is downloaded.  Warm the Verus and Kani caches so the
# first check is not slower than the rest (both tools work without this step).
set -u
cd /verif
mkdir -p evidence replay
export CARGO_NET_OFFLINE=true
d=$(mktemp -d ${TMPDIR:-/var/tmp}/rosu-setup.XXXXXX)
cat > $d/w.rs <<'EOR'
use vstd::prelude::*;
verus! { proof fn warm() ensures 1 + 1 == 2int {} }
fn main() {}
EOR
(cd $d && timeout 300 verus w.rs >/dev/null 2>&1 || true)
rm -rf $d
verus --version >/dev/null 2>&1 || { echo "verus missing"; exit 1; }
cargo kani --version >/dev/null 2>&1 || { echo "kani missing"; exit 1; }
echo setup-ok
